"""Drive an H2Connection: call the public API, capture outcome and output."""
import os
import sys

SRC = os.environ.get('H2VERIF_SRC', '/repo/src')
if SRC not in sys.path:
    sys.path.insert(0, SRC)

import h2.connection  # noqa: E402
import h2.config  # noqa: E402
import h2.events as ev  # noqa: E402
import h2.exceptions as exc  # noqa: E402
import h2.settings  # noqa: E402
from hpack import NeverIndexedHeaderTuple  # noqa: E402

assert os.path.realpath(h2.__file__).startswith(os.path.realpath(SRC)), \
    'h2 imported from %s, expected under %s' % (h2.__file__, SRC)


def norm_headers(hs):
    if hs is None:
        return None
    out = []
    for h in hs:
        out.append((h[0], h[1], isinstance(h, NeverIndexedHeaderTuple)))
    return out


def norm_changed(ch):
    return sorted((int(k), v.original_value, v.new_value) for k, v in ch.items())


def norm_event(e):
    """Event -> plain comparable tuple (class name first)."""
    n = type(e).__name__
    if isinstance(e, (ev.RequestReceived, ev.ResponseReceived,
                      ev.TrailersReceived)):
        return (n, e.stream_id, norm_headers(e.headers),
                e.stream_ended is not None, e.priority_updated is not None)
    if isinstance(e, ev.InformationalResponseReceived):
        return (n, e.stream_id, norm_headers(e.headers), False,
                e.priority_updated is not None)
    if isinstance(e, ev.DataReceived):
        return (n, e.stream_id, bytes(e.data), e.flow_controlled_length,
                e.stream_ended is not None)
    if isinstance(e, ev.WindowUpdated):
        return (n, e.stream_id, e.delta)
    if isinstance(e, (ev.RemoteSettingsChanged, ev.SettingsAcknowledged)):
        return (n, norm_changed(e.changed_settings))
    if isinstance(e, (ev.PingReceived, ev.PingAckReceived)):
        return (n, bytes(e.ping_data))
    if isinstance(e, ev.StreamEnded):
        return (n, e.stream_id)
    if isinstance(e, ev.StreamReset):
        return (n, e.stream_id, int(e.error_code), e.remote_reset)
    if isinstance(e, ev.PushedStreamReceived):
        return (n, e.parent_stream_id, e.pushed_stream_id,
                norm_headers(e.headers))
    if isinstance(e, ev.PriorityUpdated):
        return (n, e.stream_id, e.weight, e.depends_on, e.exclusive)
    if isinstance(e, ev.ConnectionTerminated):
        return (n, int(e.error_code), e.last_stream_id, e.additional_data)
    if isinstance(e, ev.AlternativeServiceAvailable):
        return (n, e.origin, e.field_value)
    if isinstance(e, ev.UnknownFrameReceived):
        f = e.frame
        return (n, getattr(f, 'type', None), getattr(f, 'stream_id', None),
                bytes(getattr(f, 'body', b'') or b''))
    return (n,)


class Outcome:
    __slots__ = ('ok', 'value', 'exc', 'code', 'events', 'raw_events', 'out', 'frames')

    def __init__(self):
        self.ok = True
        self.value = None
        self.exc = None        # exception instance
        self.code = None
        self.events = []
        self.raw_events = []
        self.out = b''
        self.frames = []

    @property
    def exc_name(self):
        return type(self.exc).__name__ if self.exc is not None else None

    def is_h2error(self):
        return isinstance(self.exc, exc.H2Error)

    def is_protocol_error(self):
        return isinstance(self.exc, exc.ProtocolError)

    def brief(self):
        if self.ok:
            return 'ok'
        return '%s(code=%s)' % (self.exc_name, self.code)


def make_conn(client, **cfg):
    return h2.connection.H2Connection(
        h2.config.H2Configuration(client_side=client, **cfg))


class Endpoint:
    """One H2Connection under test.  Output is drained after every step."""

    def __init__(self, client, conn=None, **cfg):
        self.client = client
        self.c = conn if conn is not None else make_conn(client, **cfg)
        self.sent = bytearray()       # everything ever emitted

    def _drain(self, o):
        o.out = self.c.data_to_send()
        self.sent += o.out

    def call(self, name, *a, **k):
        o = Outcome()
        try:
            o.value = getattr(self.c, name)(*a, **k)
        except Exception as e:   # noqa: BLE001 - outcome is classified by the oracle
            o.ok = False
            o.exc = e
            o.code = getattr(e, 'error_code', None)
            if o.code is not None:
                try:
                    o.code = int(o.code)
                except (TypeError, ValueError):
                    pass
        self._drain(o)
        return o

    def recv(self, data):
        o = Outcome()
        try:
            o.raw_events = self.c.receive_data(data)
            o.events = [norm_event(e) for e in o.raw_events]
        except Exception as e:   # noqa: BLE001
            o.ok = False
            o.exc = e
            o.code = getattr(e, 'error_code', None)
            if o.code is not None:
                try:
                    o.code = int(o.code)
                except (TypeError, ValueError):
                    pass
        self._drain(o)
        return o
