"""Engine E3 (generation side): inbound byte streams for an endpoint.

A scenario is a role, a configuration, a prefix of local calls and ONE inbound
byte stream that a peer model produced (valid traffic: settings, requests or
responses, continuation chains, data within the windows, trailers, pushes,
resets, pings, priorities, unknown frames, alt-svc, goaway), optionally put
through structural and byte-level mutation.  All choices come from the case
bytes (Chooser)."""
import struct

from hpack import Encoder

from . import wire
from .hpackmirror import raw_block, table_size_update, indexed
from .drive import Endpoint

REQ = [(b':method', b'GET'), (b':scheme', b'https'), (b':authority', b'example.com'), (b':path', b'/')]
POST = [(b':method', b'POST'), (b':scheme', b'https'), (b':authority', b'example.com'), (b':path', b'/p'),
        (b'content-type', b'text/plain')]
EXTRA = [(b'user-agent', b'fuzz/1.0'), (b'accept', b'*/*'), (b'cookie', b'a=b'), (b'cookie', b'c=d'),
         (b'x-long', b'v' * 70), (b'authorization', b'secret')]


class Scenario:
    def __init__(self):
        self.client = False
        self.cfg = {}
        self.prefix = []        # [(call name, args, kwargs)]
        self.frames = []        # list of bytes (one per frame) - the valid inbound stream
        self.labels = set()
        self.settings_change = False

    def stream(self):
        return b''.join(self.frames)

    def endpoint(self):
        ep = Endpoint(self.client, **self.cfg)
        for item in self.prefix:
            name, a, k = item[:3]
            o = ep.call(name, *a, **k)
            if not o.ok and len(item) < 4:     # (a 4th element marks a call that is expected to be refused)
                raise RuntimeError('scenario prefix call %s failed: %r' % (name, o.exc))
        return ep


def _hdr_frames(ch, sid, block, end_stream=False, priority=None, promised=None):
    pad = ch.pick([None, None, None, 0, 3])
    if len(block) > 2 and ch.chance(64):
        n = ch.int(1, min(3, len(block) - 1))
        cuts = sorted(set(ch.int(1, len(block) - 1) for _ in range(n)))
        sizes = [b - a for a, b in zip([0] + cuts, cuts)]
        parts = wire.split_block(block, sizes)
    else:
        parts = [block]
    out = []
    last = len(parts) - 1
    for i, part in enumerate(parts):
        if i == 0:
            if promised is None:
                out.append(wire.headers(sid, part, end_stream, i == last, priority, pad))
            else:
                out.append(wire.push_promise(sid, promised, part, i == last, pad))
        else:
            out.append(wire.continuation(sid, part, i == last))
    return out


def build(ch, client=None, max_frames=14, big_frames=False):
    sc = Scenario()
    sc.client = ch.bool() if client is None else client
    enc = Encoder()
    fr = sc.frames
    sc.prefix.append(('initiate_connection', (), {}))
    if not sc.client:
        fr.append(wire.PREFACE)
    fr.append(wire.settings([(wire.S_MAX_CONCURRENT_STREAMS, 50)] if ch.bool() else []))
    fr.append(wire.settings(ack=True))
    local_max_frame = 16384
    if big_frames and ch.chance(160):
        # the endpoint raises its own MAX_FRAME_SIZE; the ACK sits in the stream, later frames may use it
        v = ch.pick([2**15, 2**16, 20000])
        sc.prefix.append(('update_settings', ({wire.S_MAX_FRAME_SIZE: v},), {}))
        sc.settings_change = True
        sc.labels.add('local-max-frame-size-raised')
        pending_frame_size = v
    else:
        pending_frame_size = None
    if ch.chance(40):
        # the endpoint changes its INITIAL_WINDOW_SIZE; the peer's ACK for it comes somewhere in the stream
        sc.prefix.append(('update_settings', ({wire.S_INITIAL_WINDOW_SIZE: ch.pick([30000, 1000, 100000, 100, 40])},), {}))
        sc.labels.add('local-initial-window-size-changed')
    conn_win = 65535
    ghost = None
    streams = {}      # sid -> dict(state, win)
    if sc.client:
        n = ch.int(1, 4)
        for i in range(n):
            sid = 1 + 2 * i
            end = ch.bool()
            sc.prefix.append(('send_headers', (sid, POST if not end else REQ), {'end_stream': end}))
            streams[sid] = {'state': 'await-response', 'win': 65535}
        next_push = 2
        if ch.chance(48):
            # one more request that never leaves: the call is refused (no :path, or text that cannot be encoded),
            # so its stream id stays unused - whatever the peer later sends on that id meets an idle stream
            ghost = 1 + 2 * n
            bad = ch.pick([[(b':method', b'GET'), (b':scheme', b'https'), (b':authority', b'a')],
                           REQ + [('x-bad-text', 'v\udcff')]])
            sc.prefix.append(('send_headers', (ghost, bad), {}, 'refused'))
            sc.labels.add('refused-open-in-prefix')
    else:
        next_sid = 1
    nframes = ch.int(2, max_frames)
    for _ in range(nframes):
        live = [s for s, d in streams.items() if d['state'] in ('await-response', 'body', 'open')]
        op = ch.weighted([(4, 'open'), (6, 'data'), (2, 'trailers'), (1, 'rst'), (2, 'wu'), (2, 'ping'),
                          (2, 'prio'), (1, 'unknown'), (1, 'altsvc'), (2, 'settings'), (1, 'ack'),
                          (2, 'push'), (1, 'info'), (1, 'tablesize')])
        if op == 'open':
            if sc.client:
                cands = [s for s, d in streams.items() if d['state'] == 'await-response']
                if not cands:
                    continue
                sid = ch.pick(cands)
                hs = [(b':status', ch.pick([b'200', b'404', b'500']))] + \
                    [ch.pick(EXTRA) for _ in range(ch.small(3))]
                end = ch.chance(64)
                fr.extend(_hdr_frames(ch, sid, enc.encode(hs), end))
                streams[sid]['state'] = 'done' if end else 'body'
            else:
                if len(streams) >= 40:
                    continue
                sid = next_sid
                next_sid += 2 * ch.pick([1, 1, 1, 2])
                hs = list(ch.pick([REQ, POST])) + [ch.pick(EXTRA) for _ in range(ch.small(3))]
                end = ch.chance(80)
                prio = (ch.pick([0, 1, 3]), ch.int(1, 256), ch.bool()) if ch.chance(48) else None
                if prio and prio[0] == sid:
                    prio = (0, prio[1], prio[2])
                fr.extend(_hdr_frames(ch, sid, enc.encode(hs), end, prio))
                streams[sid] = {'state': 'done' if end else 'open', 'win': 65535}
        elif op == 'info':
            cands = [s for s, d in streams.items() if d['state'] == 'await-response']
            if not (sc.client and cands):
                continue
            fr.extend(_hdr_frames(ch, ch.pick(cands), enc.encode([(b':status', b'103'), (b'link', b'</x>')])))
        elif op == 'data':
            cands = [s for s, d in streams.items() if d['state'] in ('body', 'open')]
            if not cands:
                continue
            sid = ch.pick(cands)
            room = min(conn_win, streams[sid]['win'], local_max_frame)
            if pending_frame_size and ch.chance(128):
                # a frame larger than the old limit, legal only because the ACK precedes it
                if not any(f[:9] == wire.settings(ack=True) for f in fr[3:]):
                    fr.append(wire.settings(ack=True))
                    local_max_frame = pending_frame_size
                    sc.labels.add('ack-then-big-frame')
                room = min(conn_win, streams[sid]['win'], local_max_frame)
                n = room if room > 16384 else ch.int(0, max(0, min(room, 64)))
            else:
                n = ch.int(0, max(0, min(room, 64)))
            pad = ch.pick([None, None, 0, 5])
            fc = n + (0 if pad is None else pad + 1)
            if fc > room:
                pad, fc = None, n
            end = ch.chance(64)
            fr.append(wire.data(sid, bytes([ch.u8()]) * n, end, pad))
            conn_win -= fc
            streams[sid]['win'] -= fc
            if end:
                streams[sid]['state'] = 'done'
        elif op == 'trailers':
            cands = [s for s, d in streams.items() if d['state'] in ('body', 'open')]
            if not cands:
                continue
            sid = ch.pick(cands)
            fr.extend(_hdr_frames(ch, sid, enc.encode([(b'x-trailer', b'1')]), True))
            streams[sid]['state'] = 'done'
        elif op == 'rst':
            if not live:
                continue
            sid = ch.pick(live)
            composite = ch.chance(64)
            if composite:
                # a stream that is given nearly all the send window it can take, and is then closed ...
                fr.append(wire.window_update(sid, 2**31 - 1 - 65535 - ch.pick([0, 0, 1, 5000])))
            fr.append(wire.rst_stream(sid, ch.pick([0, 8, 2, 0xdead])))
            streams[sid]['state'] = 'reset'
            if composite and ch.chance(160):
                # ... before INITIAL_WINDOW_SIZE goes up: whether that still overflows the closed stream's window
                # must not depend on how the bytes were chunked
                fr.append(wire.settings([(wire.S_INITIAL_WINDOW_SIZE, ch.pick([65536, 70000, 2**31 - 1]))]))
                sc.labels.add('window-overflow-after-close')
        elif op == 'wu':
            sid = ch.pick([0] + live)
            # mostly small; sometimes up to (or just short of) what the endpoint's send window can take, so that a
            # later INITIAL_WINDOW_SIZE increase overflows that window - also on streams that have closed by then
            top = 2**31 - 1 - 65535
            fr.append(wire.window_update(sid, ch.weighted([(8, ch.int(1, 5000)), (1, top), (1, top - ch.int(0, 5000))])))
        elif op == 'ping':
            fr.append(wire.ping(ch.bytes(8), ack=ch.chance(64)))
        elif op == 'prio':
            sid = ch.int(1, 60)
            dep = ch.pick([0, 1, 3, 5])
            if dep == sid:
                dep = 0
            fr.append(wire.priority(sid, dep, ch.int(1, 256), ch.bool()))
        elif op == 'unknown':
            fr.append(wire.raw(ch.int(0x0b, 0xff), ch.u8(), ch.int(0, 9), ch.bytes(ch.int(0, 10))))
        elif op == 'altsvc':
            if ch.bool():
                fr.append(wire.altsvc(0, b'example.com', b'h2=":8000"'))
            elif live:
                fr.append(wire.altsvc(ch.pick(live), b'', b'h2=":8000"'))
        elif op == 'settings':
            pairs = []
            for _ in range(ch.int(0, 3)):
                k = ch.pick([1, 3, 4, 5, 6, 2, 0x99])
                v = {1: ch.pick([0, 100, 4096, 8192]), 3: ch.int(40, 100),
                     4: ch.pick([65535, 70000, 30000, 65535, 70000, 30000, 2**31 - 1, 66000]),
                     5: ch.pick([16384, 20000, 2**24 - 1]), 6: ch.pick([1000, 65536]),
                     2: 0 if sc.client else ch.int(0, 1), 0x99: ch.u16()}[k]
                if k not in [p[0] for p in pairs]:
                    pairs.append((k, v))
            fr.append(wire.settings(pairs))
        elif op == 'ack':
            fr.append(wire.settings(ack=True))
            if pending_frame_size:
                local_max_frame = pending_frame_size
        elif op == 'push':
            cands = [s for s, d in streams.items() if d['state'] in ('await-response', 'body') and s % 2 == 1]
            if not (sc.client and cands):
                continue
            parent = ch.pick(cands)
            pid = next_push
            next_push += 2
            fr.extend(_hdr_frames(ch, parent, enc.encode(REQ + [(b'x-pushed', b'1')]), promised=pid))
            streams[pid] = {'state': 'await-response', 'win': 65535}
            sc.labels.add('push')
        elif op == 'tablesize':
            # dynamic table size update at the start of the next block is legal (<= 4096)
            pass
    if ghost is not None and ch.chance(128):
        # the conversation ends with a frame on the id of the request that never left (a promise, a response, DATA)
        fr.append(ch.pick([b''.join(_hdr_frames(ch, ghost, enc.encode(REQ + [(b'x-pushed', b'1')]), promised=next_push)),
                           b''.join(_hdr_frames(ch, ghost, enc.encode([(b':status', b'200')]), False)),
                           wire.data(ghost, b'ghost'), wire.rst_stream(ghost, 8), wire.window_update(ghost, 5)]))
        sc.labels.add('frame-on-refused-open')
    if ch.chance(24):
        fr.append(wire.goaway(ch.int(0, 9), ch.pick([0, 1, 11]), ch.bytes(ch.int(0, 4))))
        sc.labels.add('goaway')
    return sc


# ---------------------------------------------------------------------------
# mutation

def mutate_frames(ch, frames, start=0):
    """Structural mutation of a list of serialized frames; returns (frames, labels)."""
    fr = list(frames)
    labs = []
    n = ch.weighted([(3, 1), (2, 2), (1, 4)])
    for _ in range(n):
        if len(fr) <= start:
            break
        i = ch.int(start, len(fr) - 1)
        f = fr[i]
        m = ch.weighted([(3, 'field'), (2, 'length'), (2, 'type'), (2, 'flags'), (2, 'sid'), (1, 'dup'),
                         (1, 'drop'), (1, 'swap'), (2, 'payload-byte'), (1, 'truncate-payload'),
                         (1, 'extend-payload'), (2, 'hpack'), (1, 'rbit')])
        labs.append(m)
        if len(f) < 9 or f == wire.PREFACE:
            if m in ('drop', 'payload-byte') and f == wire.PREFACE:
                j = ch.int(0, len(f) - 1)
                fr[i] = f[:j] + bytes([f[j] ^ (1 << ch.int(0, 7))]) + f[j + 1:]
            continue
        length, t, flags, rbit, sid = wire.parse_header(f[:9])
        payload = f[9:]
        if m == 'field' or m == 'payload-byte':
            if payload:
                j = ch.int(0, len(payload) - 1)
                payload = payload[:j] + bytes([ch.u8()]) + payload[j + 1:]
                fr[i] = wire.raw(t, flags, sid, payload, rbit=rbit)
        elif m == 'length':
            newlen = max(0, length + ch.pick([-1, 1, -4, 4, 100, -length]))
            fr[i] = wire.raw(t, flags, sid, payload, length=newlen, rbit=rbit)
        elif m == 'type':
            fr[i] = wire.raw(ch.int(0, 11), flags, sid, payload, rbit=rbit)
        elif m == 'flags':
            fr[i] = wire.raw(t, flags ^ (1 << ch.pick([0, 2, 3, 5, 1, 4])), sid, payload, rbit=rbit)
        elif m == 'sid':
            fr[i] = wire.raw(t, flags, ch.pick([0, 1, 2, 3, sid + 1, sid + 2, 99, 2**31 - 1]), payload, rbit=rbit)
        elif m == 'dup':
            fr.insert(i, f)
        elif m == 'drop':
            del fr[i]
        elif m == 'swap' and i + 1 < len(fr):
            fr[i], fr[i + 1] = fr[i + 1], fr[i]
        elif m == 'truncate-payload':
            k = ch.int(0, len(payload))
            fr[i] = wire.raw(t, flags, sid, payload[:k], rbit=rbit)
        elif m == 'extend-payload':
            fr[i] = wire.raw(t, flags, sid, payload + ch.bytes(ch.int(1, 8)), rbit=rbit)
        elif m == 'rbit':
            fr[i] = wire.raw(t, flags, sid, payload, rbit=1)
        elif m == 'hpack':
            blk = adversarial_block(ch)
            if t in (wire.HEADERS, wire.CONTINUATION):
                fr[i] = wire.raw(t, flags & ~(wire.F_PADDED | wire.F_PRIORITY), sid, blk)
            elif t == wire.PUSH_PROMISE and len(payload) >= 4:
                fr[i] = wire.raw(t, flags & ~wire.F_PADDED, sid, payload[:4] + blk)
            else:
                fr.insert(i, wire.headers(ch.pick([1, 3, 5, 7, 2]), blk, ch.bool()))
    return fr, labs


def adversarial_block(ch):
    k = ch.weighted([(2, 'bad-index'), (2, 'truncated-int'), (2, 'truncated-string'), (2, 'huffman-garbage'),
                     (2, 'empty-name'), (2, 'non-utf8'), (1, 'table-size-big'), (1, 'table-size-mid'),
                     (2, 'random'), (1, 'index-zero'), (2, 'upper'), (1, 'huge-string-len'), (5, 'semantic-field')])
    if k == 'semantic-field':
        return semantic_field_block(ch)
    if k == 'bad-index':
        return indexed(ch.pick([62, 63, 100, 255, 70000]))
    if k == 'index-zero':
        return b'\x80'
    if k == 'truncated-int':
        return b'\xff\xff\xff'
    if k == 'truncated-string':
        return b'\x00\x05ab'
    if k == 'huffman-garbage':
        return b'\x00\x83' + ch.bytes(3) + b'\x81' + ch.bytes(1)
    if k == 'empty-name':
        return ch.pick([raw_block([(b':status', b'200'), (b'', b'v')]), raw_block([(b'', b'v')] + REQ),
                        raw_block(REQ[:2] + [(b'', b'')] + REQ[2:]), raw_block([(b'', b'')])])
    if k == 'non-utf8':
        return raw_block([(b':status', b'200'), (b'x-\xff', b'\x80\xfe')])
    if k == 'table-size-big':
        return table_size_update(ch.pick([4097, 65536, 2**31])) + raw_block([(b':status', b'200')])
    if k == 'table-size-mid':
        return raw_block([(b':status', b'200')]) + table_size_update(100)
    if k == 'upper':
        return raw_block([(b':status', b'200'), (b'X-Upper', b'v')])
    if k == 'huge-string-len':
        return b'\x00\x7f\xff\xff\xff\x0f'
    return ch.bytes(ch.int(0, 24))


SEMANTIC_NAMES = [b'content-length', b':status', b':method', b':authority', b'host', b'te', b'cookie', b':path',
                  b':scheme', b':protocol', b'connection', b'transfer-encoding', b'content-length']
SEMANTIC_VALUES = [b'', b'\xff', b'1\xff', b'\xe9', b'abc', b'-1', b'1e3', b' 12', b'12 ', b'9' * 30, b'+5', b'0x10',
                   b'\x00', b'1,2', b'\xc3\xa9', b'\xd9\xa3', b'1_0', b'OK', b'2xx', b'1', b'100', b'099', b'trailers',
                   b'\xf0\x9f', b'a=b; \xff', b'1' * 4400, b'0' * 5000 + b'1']


def semantic_field_block(ch):
    """A well-formed block in which one field the library interprets (content-length, :status, ...) has a value it
    cannot interpret; the rest of the list is a valid request or response."""
    name = ch.pick(SEMANTIC_NAMES)
    value = ch.pick(SEMANTIC_VALUES)
    if ch.chance(40):
        value = ch.bytes(ch.int(1, 4))
    base = list(REQ if ch.bool() else [(b':status', b'200')])
    if name.startswith(b':'):
        base = [(n, v) for n, v in base if n != name or ch.chance(64)]
        hs = [(name, value)] + base if ch.chance(200) else base + [(name, value)]
    else:
        hs = base + [(name, value)]
        if ch.chance(48):
            hs.append((name, ch.pick(SEMANTIC_VALUES)))
    return raw_block(hs)


def place_adversarial_blocks(ch, frames):
    """An adversarial header block in the place of a genuine one (HEADERS or PUSH_PROMISE), everything else
    unchanged.  Returns (frames, number of blocks replaced)."""
    frames = list(frames)
    hits = 0
    for i, f in enumerate(frames):
        if len(f) < 9 or f == wire.PREFACE:
            continue
        length, t_, flags, rbit, sid = wire.parse_header(f[:9])
        if t_ == wire.HEADERS and not flags & (wire.F_PADDED | wire.F_PRIORITY) and ch.chance(100):
            frames[i] = wire.raw(t_, flags | wire.F_END_HEADERS, sid, adversarial_block(ch))
            hits += 1
        elif t_ == wire.PUSH_PROMISE and not flags & wire.F_PADDED and len(f) >= 13 and ch.chance(160):
            frames[i] = wire.raw(t_, flags | wire.F_END_HEADERS, sid, f[9:13] + adversarial_block(ch))
            hits += 1
    return frames, hits


def continuation_flood(ch, sid):
    """HEADERS without END_HEADERS followed by many CONTINUATION frames with empty or tiny fragments."""
    n = ch.pick([63, 64, 65, 66, 70, 200, 1200, 3000])
    blk = raw_block(REQ if ch.bool() else [(b':status', b'200')])
    out = [wire.headers(sid, blk if ch.bool() else b'', end_stream=ch.bool(), end_headers=False)]
    frag = ch.pick([b'', b'', b'\x82'])
    out += [wire.continuation(sid, frag, end_headers=False)] * (n - 1)
    out.append(wire.continuation(sid, frag, end_headers=ch.bool()))
    return out


def frame_flood(ch):
    """A long run (more than the interpreter's recursion limit) of small frames of one kind that the receiver
    handles without keeping anything: ALTSVC, unknown extension frames, PRIORITY, PING, empty SETTINGS,
    connection WINDOW_UPDATE."""
    n = ch.pick([1100, 1500, 2500])
    kind = ch.pick(['altsvc', 'altsvc-stream', 'unknown', 'priority', 'ping', 'settings', 'window-update'])
    one = {'altsvc': wire.altsvc(0, b'example.com', b'h2=":1"'), 'altsvc-stream': wire.altsvc(1, b'', b'h2=":1"'),
           'unknown': wire.raw(0x55, 0, ch.pick([0, 1]), b'u'), 'priority': wire.priority(ch.pick([1, 9, 101]), 0, 7),
           'ping': wire.ping(b'floodfld'), 'settings': wire.settings(),
           'window-update': wire.window_update(0, 1)}[kind]
    return [one] * n, kind


def mutate_bytes(ch, data, start=0):
    data = bytearray(data)
    for _ in range(ch.int(1, 4)):
        if len(data) <= start:
            break
        j = ch.int(start, len(data) - 1)
        m = ch.int(0, 3)
        if m == 0:
            data[j] ^= 1 << ch.int(0, 7)
        elif m == 1:
            data[j] = ch.u8()
        elif m == 2:
            del data[j:j + ch.int(1, 4)]
        else:
            data[j:j] = ch.bytes(ch.int(1, 4))
    return bytes(data)


def chunkings(ch, n, count):
    """``count`` drawn multi-split chunkings of a stream of n bytes."""
    out = []
    for _ in range(count):
        k = ch.int(1, 6)
        cuts = sorted(set(ch.int(1, max(1, n - 1)) for _ in range(k))) if n > 1 else []
        out.append(cuts)
    return out


def split(data, cuts):
    out = []
    prev = 0
    for c in cuts:
        out.append(data[prev:c])
        prev = c
    out.append(data[prev:])
    return out
