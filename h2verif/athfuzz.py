"""Coverage-guided driver (atheris / libFuzzer) over the same case bytes the
Hypothesis driver uses.  One process = one libFuzzer worker.  Because atexit
handlers do not run under libFuzzer, findings, digests and counters are
appended to files as the campaign proceeds.

usage: python -m h2verif.athfuzz <prop> <outdir> [libFuzzer args...]
"""
import os
import sys


def main():
    prop_id, outdir = sys.argv[1], sys.argv[2]
    lf_args = sys.argv[3:]
    import atheris
    with atheris.instrument_imports(include=['h2']):
        import importlib
        from h2verif import runner
        prop = importlib.import_module('h2verif.props.' + prop_id)
    known = runner.known_for(prop_id, 'known')
    if hasattr(prop, 'configure'):
        prop.configure(known)
    seen_keys = set()
    seen_digests = set()
    fd_find = open(os.path.join(outdir, 'findings.txt'), 'a')
    fd_dig = open(os.path.join(outdir, 'digests.bin'), 'ab')
    fd_stat = open(os.path.join(outdir, 'stats.txt'), 'w')
    state = {'n': 0, 'evals': 0}

    # A case normally takes milliseconds.  One that burns more than LIMIT seconds of CPU is abandoned and recorded
    # with the stack it was interrupted in (a time budget hit is "inconclusive", never a violation); SIGVTALRM is
    # used because libFuzzer keeps SIGALRM for its own -timeout.
    import signal
    import traceback

    class CaseTimeout(BaseException):
        pass

    def on_alarm(signum, frame):
        raise CaseTimeout()

    signal.signal(signal.SIGVTALRM, on_alarm)
    fd_slow = open(os.path.join(outdir, 'slow.txt'), 'a')
    LIMIT = 60.0

    def one(data):
        signal.setitimer(signal.ITIMER_VIRTUAL, LIMIT)
        try:
            r = prop.run_case(data)
        except CaseTimeout:
            signal.setitimer(signal.ITIMER_VIRTUAL, 0)
            fd_slow.write('%s\t%s\n' % (bytes(data).hex(), traceback.format_exc().replace('\n', ' | ')[-1500:]))
            fd_slow.flush()
            return
        finally:
            signal.setitimer(signal.ITIMER_VIRTUAL, 0)
        state['n'] += 1
        state['evals'] += r.evals
        if state['n'] % 2000 == 0:
            fd_stat.seek(0)
            fd_stat.write('%d %d\n' % (state['n'], state['evals']))
            fd_stat.flush()
        if r.nontrivial:
            d = runner.digest(r.trace)
            if d not in seen_digests:
                seen_digests.add(d)
                fd_dig.write(d)
                if len(seen_digests) % 256 == 0:
                    fd_dig.flush()
        for key, detail in r.violations:
            if runner.match_known(key, known) is not None:
                continue
            if key not in seen_keys:
                seen_keys.add(key)
                fd_find.write('%s\t%s\t%s\n' % (key, bytes(data).hex(), str(detail)[:300].replace('\n', ' ')))
                fd_find.flush()

    atheris.Setup([sys.argv[0]] + lf_args, one)
    atheris.Fuzz()


if __name__ == '__main__':
    main()
