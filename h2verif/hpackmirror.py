"""Peer-side HPACK contexts owned by the harness (hpack is trusted base).

``Mirror`` holds the decoder that mirrors what the endpoint under test emits
and the encoder used for what it is fed.  ``raw_block`` is a hand-rolled
literal encoder for adversarial header lists (any bytes, empty names) that the
hpack encoder would refuse or canonicalise.
"""
from hpack import Decoder, Encoder, HeaderTuple, NeverIndexedHeaderTuple


def _int(value, prefix_bits, first_byte_flags):
    limit = (1 << prefix_bits) - 1
    if value < limit:
        return bytes([first_byte_flags | value])
    out = [first_byte_flags | limit]
    value -= limit
    while value >= 128:
        out.append((value & 0x7F) | 0x80)
        value >>= 7
    out.append(value)
    return bytes(out)


def raw_field(name, value, never=False):
    """Literal header field without indexing (0x00) / never indexed (0x10),
    new name, no Huffman."""
    return (_int(0, 4, 0x10 if never else 0x00) + _int(len(name), 7, 0) + name +
            _int(len(value), 7, 0) + value)


def raw_block(fields):
    """fields: iterable of (name, value) or (name, value, never)."""
    out = b''
    for f in fields:
        out += raw_field(bytes(f[0]), bytes(f[1]), bool(f[2]) if len(f) > 2 else False)
    return out


def table_size_update(size):
    return _int(size, 5, 0x20)


def indexed(index):
    return _int(index, 7, 0x80)


class Mirror:
    """The peer's two HPACK contexts."""

    def __init__(self):
        self.dec = Decoder()
        self.dec.max_header_list_size = 1 << 30
        self.enc = Encoder()

    def decode(self, block):
        """Decode a block emitted by the endpoint under test.

        Returns list of (name, value, never_indexed) with bytes."""
        hs = self.dec.decode(block, raw=True)
        return [(bytes(h[0]), bytes(h[1]), isinstance(h, NeverIndexedHeaderTuple))
                for h in hs]

    def encode(self, headers):
        return self.enc.encode(headers)

    def set_encoder_table_size(self, size):
        """The simulated peer's encoder changes its table size.  Several changes between two header blocks are
        signalled as RFC 7541 s4.2 requires - the smallest, then the final one - where hpack.Encoder would list
        every intermediate value, including ones above the limit the decoder has by then."""
        if self.enc.header_table_size == size:
            return
        self.enc.header_table_size = size
        chg = list(self.enc.table_size_changes)
        if len(chg) > 1:
            low, last = min(chg), chg[-1]
            self.enc.table_size_changes = [last] if low == last else [low, last]


def as_bytes(x):
    return x.encode('utf-8') if isinstance(x, str) else bytes(x)
