"""Generic multi-stream program engine on top of solo.py + model.py.

A ``World`` holds one endpoint under test, the RFC reference model and the
Result being filled.  ``local(...)`` / ``recv(...)`` execute one action on an
arbitrary stream id, compare the library's reaction with the model (keys are
prefixed with the property id) and advance the model by RFC rules.  Property
modules drive it with their own action mix and add their own oracles.
"""
from . import wire, model as M
from .solo import Solo, REQ, RESP

INFO = [(b':status', b'103')]
TRAILERS = [(b'x-trailer', b'v')]
INERT_REFUSALS = {'message:not-a-request', 'message:second-final-block', 'message:trailers-without-end-stream',
                  'message:trailers-before-response', 'message:informational-with-end-stream', 'client-cannot-advertise',
                  'no-such-stream', 'stream-closed', 'stream-id-too-low', 'push-disabled', 'too-many-streams',
                  'client-cannot-push', 'connection-closed', 'bad-promised-id', 'server-cannot-open-stream',
                  'wrong-parity', 'id-too-large', 'recursive-push'}


class World:
    def __init__(self, client, r, pid, upgrade=False, local_initial=None, **cfg):
        self.client = client
        self.r = r
        self.pid = pid
        self.s = Solo(client, **cfg)
        self.m = M.Conn(client)
        if local_initial:
            # the application installs its own initial settings before the connection starts (as servers built
            # on h2 do); the peer acknowledges them with the first SETTINGS frame
            import h2.settings
            self.s.c.local_settings = h2.settings.Settings(client=client, initial_values=dict(local_initial))
            self.m.local_max_streams = local_initial.get(wire.S_MAX_CONCURRENT_STREAMS, 100)
        self.stop = False           # nothing more may be generated (connection error, K03 on the connection)
        self.tainted = set()        # streams hit by a state-machine refusal (K03): not used any more
        self.rejected = 0
        self.after_rejection = 0    # steps executed after some rejected step
        if upgrade:
            if client:
                self.s.call('initiate_upgrade_connection')
                self.s.feed(wire.settings() + wire.settings(ack=True))
            else:
                self.s.call('initiate_upgrade_connection', b'')
                self.s.feed(wire.PREFACE + wire.settings() + wire.settings(ack=True))
            self.m.upgrade()
        else:
            self.s.start()

    # ------------------------------------------------------------------
    def tag(self, sid):
        cls = self.m.classify(sid)
        role = 'client' if self.client else 'server'
        if cls != 'known':
            return '%s:%s' % (role, cls)
        st = self.m.get(sid)
        t = st.state
        if st.state == M.CLOSED:
            t += '(%s)' % st.closed_by
        return '%s:%s' % (role, t)

    def final_list(self, sid, local):
        st = self.m.get(sid)
        if st is None and sid % 2 == 0:
            return REQ
        odd = sid % 2 == 1
        sends_request = (self.client if local else not self.client) and odd
        return REQ if sends_request else RESP

    def next_local_id(self):
        base = self.m.hi_local
        if base == 0:
            return 1 if self.client else 2
        return base + 2

    def next_peer_id(self):
        base = self.m.hi_peer
        if base == 0:
            return 2 if self.client else 1
        return base + 2

    def violate(self, key, detail=''):
        self.r.violate('%s:%s' % (self.pid, key), detail)

    def _count(self):
        if self.rejected:
            self.after_rejection += 1

    # ------------------------------------------------------------------
    def finish_local(self, name, sid, verdict, what, o, apply):
        """Common comparison for a local call.  Returns 'ok' | 'refused' | 'stop'."""
        tag = self.tag(sid) if sid is not None else ('client' if self.client else 'server')
        self._count()
        self.r.step('call', name, sid, 'model', verdict, what, 'library', o.brief())
        if not o.ok and not o.is_h2error():
            self.violate('send:%s:%s:non-h2-exception:%s' % (name, tag, o.exc_name), repr(o.exc))
            self.stop = True
            return 'stop'
        if verdict == M.PERMIT and not o.ok:
            self.violate('send:%s:%s:permitted-by-rfc-but-refused:%s' % (name, tag, o.exc_name), repr(o.exc))
            self.stop = True
            return 'stop'
        if verdict == M.REFUSE and o.ok:
            if what == 'message:data-before-headers':
                self.violate('data-before-final-headers-accepted', '%s %s' % (name, tag))
                apply()
                return 'ok'
            self.violate('send:%s:%s:refused-by-rfc-but-accepted:%s' % (name, tag, what), repr(o.frames))
            self.stop = True
            return 'stop'
        if not o.ok and o.out:
            self.violate('send:%s:%s:refused-call-emitted' % (name, tag), o.out.hex()[:60])
        if o.ok:
            if verdict == M.PERMIT:
                apply()
            else:
                # dont-care accepted: the model cannot follow; stop using the stream - unless the call is an
                # ALTSVC or WINDOW_UPDATE frame, which never moves a stream to another state
                if sid is not None and what not in ('pushed-stream', 'pointless-but-legal'):
                    self.tainted.add(sid)
            return 'ok'
        self.rejected += 1
        self.r.labels.add('refused-local-call')
        if what not in INERT_REFUSALS or not self.m.seen_headers:
            # K03: a state machine refused the input and closed the stream / connection
            self.r.excluded['continuation-after-state-machine-refusal-of-local-call'] += 1
            if sid is None or not self.m.seen_headers:
                self.stop = True
                return 'stop'
            self.tainted.add(sid)
        return 'refused'

    def send_headers(self, sid, kind, es, hdrs=None, **kw):
        hdrs = hdrs or {'final': self.final_list(sid, True), 'info': INFO, 'trailers': TRAILERS}[kind]
        verdict, what = self.m.send_headers_verdict(sid, kind, es)
        o = self.s.call('send_headers', sid, hdrs, end_stream=es, **kw)
        res = self.finish_local('headers:' + kind + ('+es' if es else ''), sid, verdict, what, o,
                                lambda: self.m.apply_send_headers(sid, what, es))
        return res, o

    def send_unencodable(self, sid, promised=None):
        """send_headers / push_stream with header text that cannot be encoded (a lone surrogate): the call must
        raise (UnicodeEncodeError is a ValueError) and, like every raising call, must leave no trace."""
        bad = [('x-bad-text', 'v\udcff')]
        if promised is None:
            o = self.s.call('send_headers', sid, list(self.final_list(sid, True)) + bad)
            name = 'headers:unencodable'
        else:
            o = self.s.call('push_stream', sid, promised, list(REQ) + bad)
            name = 'push:unencodable'
        self._count()
        self.r.step('call', name, sid, promised, 'library', o.brief())
        if o.ok:
            self.violate('send:%s:unencodable-text-accepted' % name, repr(o.frames)[:120])
            self.stop = True
        elif not (o.is_h2error() or isinstance(o.exc, (ValueError, TypeError))):
            self.violate('send:%s:undocumented-exception:%s' % (name, o.exc_name), repr(o.exc))
            self.stop = True
        if o.out:
            self.violate('send:%s:refused-call-emitted' % name, o.out.hex()[:60])
        return o

    def send_data(self, sid, es, n=3, pad=None):
        verdict, what = self.m.send_data_verdict(sid, es)
        o = self.s.call('send_data', sid, b'd' * n, end_stream=es, pad_length=pad)

        def apply():
            if es:
                self.m.get(sid).send_end()
        return self.finish_local('data' + ('+es' if es else ''), sid, verdict, what, o, apply), o

    def end_stream(self, sid):
        verdict, what = self.m.send_data_verdict(sid, True)
        o = self.s.call('end_stream', sid)
        return self.finish_local('end', sid, verdict, what, o, lambda: self.m.get(sid).send_end()), o

    def reset(self, sid, code=wire.CANCEL):
        verdict, what = self.m.reset_verdict(sid)
        o = self.s.call('reset_stream', sid, code)
        return self.finish_local('rst', sid, verdict, what, o, lambda: self.m.get(sid).close('send-rst')), o

    def push(self, parent, promised, hdrs=None):
        verdict, what = self.m.push_verdict(parent, promised)
        o = self.s.call('push_stream', parent, promised, hdrs or REQ)
        return self.finish_local('push', parent, verdict, what, o, lambda: self.m.apply_push(parent, promised)), o

    def window_update(self, sid, inc=10):
        verdict, what = self.m.window_update_verdict(sid)
        o = self.s.call('increment_flow_control_window', inc, sid)
        return self.finish_local('wu', sid, verdict, what, o, lambda: None), o

    def altsvc_stream(self, sid):
        verdict, what = self.m.altsvc_stream_verdict(sid)
        o = self.s.call('advertise_alternative_service', b'h2=":1"', stream_id=sid)
        return self.finish_local('altsvc', sid, verdict, what, o, lambda: None), o

    # ------------------------------------------------------------------
    def observe(self, o, sid, promised=None):
        if not o.ok:
            if o.is_protocol_error():
                return M.C(o.code)
            return ('exception', o.exc_name)
        rst = [f for f in o.frames if f.type == wire.RST_STREAM and f.stream_id == sid]
        if rst:
            return M.S(rst[0].f.get('code'))
        if promised is not None:
            if [f for f in o.frames if f.type == wire.RST_STREAM and f.stream_id == promised]:
                return ('refuse-promise',)
        evs = [e for e in o.events if e[0] != 'PriorityUpdated' and len(e) > 1 and e[1] == sid]
        return M.ACCEPT if evs else M.IGNORE

    def finish_recv(self, name, sid, want, got, o):
        """Returns 'ok' | 'rejected' | 'stop'."""
        tag = self.tag(sid)
        self._count()
        self.r.step('recv', name, sid, 'acceptable', sorted(map(str, want)), 'library', str(got))
        if got not in want:
            g = got if isinstance(got, str) else '%s(%s)' % (got[0], got[1] if len(got) > 1 else '')
            self.violate('recv:%s:%s:got=%s' % (name, tag, g), 'acceptable: %s' % sorted(map(str, want)))
            self.stop = True
            return 'stop'
        if isinstance(got, tuple) and got[0] == 'connection-error':
            self.m.closed = 'error'
            goaways = [f for f in o.frames if f.type == wire.GOAWAY]
            if len(goaways) != 1 or goaways[0].f.get('code') != got[1]:
                self.violate('recv:%s:%s:goaway-mismatch' % (name, tag), repr(o.frames))
            self.stop = True
            return 'stop'
        if isinstance(got, tuple) and got[0] == 'stream-error':
            m = self.m
            st = m.get(sid)
            if st is not None and st.state != M.CLOSED:
                st.close('send-rst')
            elif st is None and m.classify(sid) == 'idle':
                stn = m.streams[sid] = M.Stream(sid, local=m.is_local_id(sid))
                stn.close('send-rst')
                if m.is_local_id(sid):
                    m.hi_local = max(m.hi_local, sid)
                else:
                    m.hi_peer = max(m.hi_peer, sid)
            self.rejected += 1
            return 'rejected'
        return 'ok'

    def recv_headers(self, sid, kind, es, priority=None, hdrs=None):
        hdrs = hdrs or {'final': self.final_list(sid, False), 'info': INFO, 'trailers': TRAILERS}[kind]
        want, what = self.m.recv_headers_verdict(sid, kind, es)
        o = self.s.feed(wire.headers(sid, self.s.hblock(hdrs), end_stream=es, priority=priority))
        got = self.observe(o, sid)
        if got == M.ACCEPT and M.ACCEPT in want:
            self.m.apply_recv_headers(sid, what, es)
        return self.finish_recv('headers:' + kind + ('+es' if es else ''), sid, want, got, o), o

    def recv_data(self, sid, es, n=3, pad=None):
        want = self.m.recv_data_verdict(sid)
        o = self.s.feed(wire.data(sid, b'r' * n, end_stream=es, pad=pad))
        got = self.observe(o, sid)
        if got == M.ACCEPT and M.ACCEPT in want and es:
            self.m.get(sid).recv_end()
        return self.finish_recv('data' + ('+es' if es else ''), sid, want, got, o), o

    def recv_rst(self, sid, code=wire.CANCEL):
        want = self.m.recv_rst_verdict(sid)
        o = self.s.feed(wire.rst_stream(sid, code))
        got = self.observe(o, sid)
        if got == M.ACCEPT and M.ACCEPT in want:
            self.m.get(sid).close('recv-rst')
        return self.finish_recv('rst', sid, want, got, o), o

    def recv_window_update(self, sid, inc=10):
        want = self.m.recv_window_update_verdict(sid)
        o = self.s.feed(wire.window_update(sid, inc))
        got = self.observe(o, sid)
        return self.finish_recv('wu', sid, want, got, o), o

    def recv_window_update_overflow(self, sid):
        """WINDOW_UPDATE that pushes the stream's send window past 2^31-1 (the window is assumed to be within
        65535 of its initial value): a stream error FLOW_CONTROL_ERROR, which closes the stream (RFC 7540 s6.9.1)."""
        want = self.m.recv_window_update_verdict(sid)
        if M.ACCEPT in want:
            want = {M.S(wire.FLOW_CONTROL_ERROR), M.C(wire.FLOW_CONTROL_ERROR)}
        o = self.s.feed(wire.window_update(sid, 2 ** 31 - 1))
        got = self.observe(o, sid)
        return self.finish_recv('wu-overflow', sid, want, got, o), o

    def recv_push(self, parent, promised, hdrs=None, invalid_list=False):
        want = self.m.recv_push_verdict(parent, promised)
        if invalid_list:
            # an invalid header list is the peer's violation whatever else is going on
            want = (want - {M.ACCEPT}) | {M.C(M.P)}
        o = self.s.feed(wire.push_promise(parent, promised, self.s.hblock(hdrs or REQ)))
        got = self.observe(o, parent, promised)
        if got == M.ACCEPT and M.ACCEPT in want:
            self.m.apply_recv_push(parent, promised)
        elif o.ok and got == ('refuse-promise',):
            if promised % 2 == 0 and promised > self.m.hi_peer:
                self.m.hi_peer = promised
                st = self.m.streams[promised] = M.Stream(promised, local=False, pushed=True)
                st.close('send-rst')
        return self.finish_recv('push(bad-list)' if invalid_list else 'push', parent, want, got, o), o

    def recv_continuation(self, sid):
        o = self.s.feed(wire.continuation(sid, b''))
        return self.finish_recv('cont', sid, {M.C(M.P)}, self.observe(o, sid), o), o

    def recv_priority(self, sid, depends_on=0, weight=16, exclusive=False):
        o = self.s.feed(wire.priority(sid, depends_on, weight, exclusive))
        if depends_on == sid:
            want = {M.C(M.P), M.S(M.P)}
            got = self.observe(o, sid)
        else:
            want = {M.ACCEPT}
            ok = o.ok and not o.frames and [e for e in o.events if e[0] == 'PriorityUpdated'] == \
                [('PriorityUpdated', sid, weight, depends_on, exclusive)] and len(o.events) == 1
            got = M.ACCEPT if ok else (self.observe(o, sid) if not o.ok else ('wrong-priority-event',))
        return self.finish_recv('prio', sid, want, got, o), o
