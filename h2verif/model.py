"""RFC 7540 reference model of one endpoint (DESIGN.md s3.3, Appendix A/B).

Written from the RFC text and the library's documentation; it never looks at
h2.stream._transitions or any other library table.  The model answers two
questions:

* ``call_verdict``: may the application make this call now?  -> PERMIT,
  REFUSE (with the reason class) or DONTCARE;
* ``recv_verdict``: which reactions to a received frame are acceptable?  ->
  a set of reaction tags.

and is advanced by ``apply_call`` / ``apply_recv`` according to RFC rules only.
"""
from . import wire

IDLE, RES_LOCAL, RES_REMOTE, OPEN, HC_LOCAL, HC_REMOTE, CLOSED = (
    'idle', 'reserved-local', 'reserved-remote', 'open', 'half-closed-local', 'half-closed-remote', 'closed')

PERMIT, REFUSE, DONTCARE = 'permit', 'refuse', 'dontcare'

P = wire.PROTOCOL_ERROR
SC = wire.STREAM_CLOSED
FC = wire.FLOW_CONTROL_ERROR

# reaction tags for received frames
ACCEPT = 'accept'        # frame accepted, event(s) for the stream reported
IGNORE = 'ignore'        # no event, no frame emitted, no error


def S(code):
    return ('stream-error', code)


def C(code):
    return ('connection-error', code)


class Stream:
    __slots__ = ('sid', 'state', 'local', 'pushed', 'closed_by', 's_info', 's_final', 's_trailers', 's_ended',
                 'r_info', 'r_final', 'r_trailers', 'r_ended', 'method', 'refused_promises')

    def __init__(self, sid, local, pushed=False):
        self.sid = sid
        self.state = IDLE
        self.local = local          # opened / promised by the endpoint under test
        self.pushed = pushed
        self.closed_by = None       # 'send-rst' | 'recv-rst' | 'end'
        self.s_info = 0
        self.s_final = False
        self.s_trailers = False
        self.s_ended = False
        self.r_info = 0
        self.r_final = False
        self.r_trailers = False
        self.r_ended = False
        self.method = None

    def can_send(self):
        return self.state in (OPEN, HC_REMOTE)

    def can_recv(self):
        return self.state in (OPEN, HC_LOCAL)

    def live(self):
        return self.state not in (IDLE, CLOSED)

    def close(self, how):
        self.state = CLOSED
        self.closed_by = how

    def send_end(self):
        self.s_ended = True
        if self.state == OPEN:
            self.state = HC_LOCAL
        elif self.state == HC_REMOTE:
            self.close('end')

    def recv_end(self):
        self.r_ended = True
        if self.state == OPEN:
            self.state = HC_REMOTE
        elif self.state == HC_LOCAL:
            self.close('end')


class Conn:
    def __init__(self, client):
        self.client = client
        self.streams = {}
        self.hi_local = 0           # highest id opened or promised by us
        self.hi_peer = 0            # highest id opened or promised by the peer
        self.closed = None          # None | 'sent-goaway' | 'recv-goaway' | 'error'
        self.peer_enable_push = 0 if client else 1      # what the peer allows us (server pushes iff 1)
        self.local_enable_push = 1 if client else 0     # acknowledged local ENABLE_PUSH (client accepts pushes iff 1)
        self.peer_max_streams = None                    # unlimited until told
        self.local_max_streams = 100
        self.upgraded = False
        self.seen_headers = False   # a HEADERS frame was sent or received (or the connection was upgraded)

    # ------------------------------------------------------------------
    def local_parity(self):
        return 1 if self.client else 0

    def is_local_id(self, sid):
        return sid % 2 == self.local_parity()

    def get(self, sid):
        return self.streams.get(sid)

    def classify(self, sid):
        """'known' (model holds it), 'idle' (above the watermark of its initiator), 'implicit' (never used,
        at or below the watermark: implicitly closed)."""
        if sid in self.streams:
            return 'known'
        hi = self.hi_local if self.is_local_id(sid) else self.hi_peer
        return 'idle' if sid > hi else 'implicit'

    def open_count(self, local):
        n = 0
        for st in self.streams.values():
            if st.local == local and st.state in (OPEN, HC_LOCAL, HC_REMOTE):
                n += 1
        return n

    def upgrade(self):
        """h2c: stream 1 exists, request complete."""
        st = Stream(1, local=self.client)
        if self.client:
            st.state = HC_LOCAL
            st.s_final = st.s_ended = True
            self.hi_local = 1
        else:
            st.state = HC_REMOTE
            st.r_final = st.r_ended = True
            self.hi_peer = 1
        self.streams[1] = st
        self.upgraded = True
        self.seen_headers = True
        return st

    # ------------------------------------------------------------------
    # local calls.  kinds of header lists: 'final' (request at a client, response at a server),
    # 'info' (1xx), 'trailers' (no pseudo-headers)
    def headers_position(self, st):
        """Which block the next send_headers on this stream would be: 'request', 'response', 'trailers', None."""
        if st is None or st.state == IDLE:
            return 'request' if self.client else None
        if st.state in (HC_LOCAL, RES_REMOTE, CLOSED):
            return None
        if st.state == RES_LOCAL:
            return 'response'
        # open / half-closed (remote)
        if self.client:
            if st.pushed:
                return None
            return 'trailers' if st.s_final else None
        if st.local and not st.pushed:
            return None
        return 'trailers' if st.s_final else 'response'

    def send_headers_verdict(self, sid, kind, end_stream):
        """-> (verdict, reason)."""
        if self.closed:
            return REFUSE, 'connection-closed'
        cls = self.classify(sid)
        st = self.get(sid)
        if cls == 'implicit':
            return REFUSE, 'stream-id-too-low'
        if st is not None and st.state == CLOSED:
            return REFUSE, 'stream-closed'
        if cls == 'idle':
            if not self.client:
                return REFUSE, 'server-cannot-open-stream'
            if not self.is_local_id(sid):
                return REFUSE, 'wrong-parity'
            if sid > 2**31 - 1:
                return REFUSE, 'id-too-large'
            if self.peer_max_streams is not None and self.open_count(True) + 1 > self.peer_max_streams:
                return REFUSE, 'too-many-streams'
            if kind != 'final':
                return REFUSE, 'message:not-a-request'
            return PERMIT, 'request'
        pos = self.headers_position(st)
        if pos is None:
            return REFUSE, 'state:' + st.state
        if pos == 'response':
            if kind == 'final':
                if st.state == RES_LOCAL and self.peer_max_streams is not None and \
                        self.open_count(True) + 1 > self.peer_max_streams:
                    # the promised stream becomes half-closed (remote) and starts to count; with
                    # END_STREAM it is closed at once and whether it ever counted is a dont-care
                    return (DONTCARE if end_stream else REFUSE), 'too-many-streams'
                return PERMIT, 'response'
            if kind == 'info':
                if end_stream:
                    return REFUSE, 'message:informational-with-end-stream'
                if st.state == RES_LOCAL:
                    # a 1xx on a promised stream before its response: RFC 7540 is silent
                    return DONTCARE, 'informational-on-promised-stream'
                return PERMIT, 'informational'
            return REFUSE, 'message:trailers-before-response'
        # trailers position
        if kind == 'info':
            return REFUSE, 'message:informational-after-final'
        if kind == 'final':
            return REFUSE, 'message:second-final-block'
        if st.s_trailers:
            return REFUSE, 'message:second-trailers'
        if not end_stream:
            return REFUSE, 'message:trailers-without-end-stream'
        return PERMIT, 'trailers'

    def apply_send_headers(self, sid, what, end_stream):
        self.seen_headers = True
        st = self.get(sid)
        if st is None:
            st = self.streams[sid] = Stream(sid, local=True)
            self.hi_local = max(self.hi_local, sid)
        if what == 'request':
            st.state = OPEN
            st.s_final = True
        elif what == 'response':
            if st.state == RES_LOCAL:
                st.state = HC_REMOTE
            st.s_final = True
        elif what == 'informational':
            st.s_info += 1
        elif what == 'trailers':
            st.s_trailers = True
        if end_stream:
            st.send_end()
        return st

    def send_data_verdict(self, sid, end_stream=False):
        if self.closed:
            return REFUSE, 'connection-closed'
        cls = self.classify(sid)
        st = self.get(sid)
        if cls == 'idle':
            return REFUSE, 'no-such-stream'
        if cls == 'implicit' or st.state == CLOSED:
            return REFUSE, 'stream-closed'
        if not st.can_send():
            return REFUSE, 'state:' + st.state
        if st.s_trailers:
            return REFUSE, 'message:data-after-trailers'
        if not st.s_final:
            # DATA / END_STREAM before the final header block: refused by the message rules
            return REFUSE, 'message:data-before-headers'
        return PERMIT, 'data'

    def reset_verdict(self, sid):
        if self.closed:
            return REFUSE, 'connection-closed'
        cls = self.classify(sid)
        st = self.get(sid)
        if cls == 'idle':
            return REFUSE, 'no-such-stream'
        if cls == 'implicit' or st.state == CLOSED:
            return REFUSE, 'stream-closed'
        return PERMIT, 'reset'

    def window_update_verdict(self, sid):
        if self.closed:
            return REFUSE, 'connection-closed'
        if sid is None:
            return PERMIT, 'connection'
        cls = self.classify(sid)
        st = self.get(sid)
        if cls == 'idle':
            return REFUSE, 'no-such-stream'
        if cls == 'implicit' or st.state == CLOSED:
            return REFUSE, 'stream-closed'
        if st.state == RES_LOCAL:
            return REFUSE, 'state:' + st.state
        if st.state == HC_REMOTE:
            return DONTCARE, 'pointless-but-legal'
        return PERMIT, 'window-update'

    def push_verdict(self, parent, promised):
        if self.closed:
            return REFUSE, 'connection-closed'
        if self.client:
            return REFUSE, 'client-cannot-push'
        if not self.peer_enable_push:
            return REFUSE, 'push-disabled'
        cls = self.classify(parent)
        st = self.get(parent)
        if cls == 'idle':
            return REFUSE, 'no-such-stream'
        if cls == 'implicit' or st.state == CLOSED:
            return REFUSE, 'stream-closed'
        if parent % 2 == 0:
            return REFUSE, 'recursive-push'
        if st.state not in (OPEN, HC_REMOTE):
            return REFUSE, 'state:' + st.state
        if promised % 2 or promised <= self.hi_local or promised > 2**31 - 1:
            return REFUSE, 'bad-promised-id'
        return PERMIT, 'push'

    def apply_push(self, parent, promised):
        st = self.streams[promised] = Stream(promised, local=True, pushed=True)
        st.state = RES_LOCAL
        st.r_final = st.r_ended = True      # the promised request is complete
        self.hi_local = max(self.hi_local, promised)
        return st

    def altsvc_stream_verdict(self, sid):
        if self.closed:
            return REFUSE, 'connection-closed'
        if self.client:
            return REFUSE, 'client-cannot-advertise'
        cls = self.classify(sid)
        st = self.get(sid)
        if cls == 'idle':
            return REFUSE, 'no-such-stream'
        if cls == 'implicit' or st.state == CLOSED:
            return REFUSE, 'stream-closed'
        if st.state == RES_LOCAL:
            return DONTCARE, 'pushed-stream'
        if st.state == HC_LOCAL and not st.s_final and not st.local:
            # only reachable through K04 (END_STREAM sent before any response headers)
            return DONTCARE, 'ended-without-response-headers'
        if st.state not in (OPEN, HC_REMOTE) or st.local:
            return REFUSE, 'state:' + st.state
        if st.s_final:
            return REFUSE, 'message:after-response-headers'
        return PERMIT, 'altsvc'

    # ------------------------------------------------------------------
    # received frames.  Each verdict is a set of acceptable reaction tags.
    def recv_headers_verdict(self, sid, kind, end_stream):
        """kind: 'final' (request for a server, response for a client), 'info', 'trailers'.
        Returns (acceptable reactions, what-if-accepted)."""
        cls = self.classify(sid)
        st = self.get(sid)
        if cls == 'idle':
            if self.client or self.is_local_id(sid):
                return {C(P)}, None
            if kind != 'final':
                return {C(P), S(P)}, None
            if self.open_count(False) + 1 > self.local_max_streams:
                return {C(P), S(P), S(wire.REFUSED_STREAM)}, None
            return {ACCEPT}, 'request'
        if cls == 'implicit':
            return {C(P)}, None
        if st.state == CLOSED:
            if st.closed_by == 'recv-rst':
                return {S(SC), C(SC)}, None
            if st.closed_by == 'send-rst':
                return {IGNORE, S(SC)}, None
            return {C(SC)}, None
        if st.state in (RES_LOCAL,):
            return {C(P)}, None
        if st.state == HC_REMOTE:
            out = {S(SC), C(SC)}
            if kind == 'info':
                out |= {C(P)}
            return out, None
        if st.state == RES_REMOTE:
            if kind == 'final':
                if self.open_count(False) + 1 > self.local_max_streams:
                    out = {C(P), S(P), S(wire.REFUSED_STREAM)}
                    if end_stream:
                        return out | {ACCEPT}, 'response'
                    return out, None
                return {ACCEPT}, 'response'
            if kind == 'info':
                # an informational response on a promised stream: message grammar allows 1xx before the final
                return {ACCEPT, C(P), S(P)}, 'informational'
            return {C(P), S(P)}, None
        # open / half-closed (local): message grammar
        if self.receiving_requests(st):
            # server side of a client-initiated stream: only trailers may follow
            if kind == 'trailers' and not st.r_trailers and end_stream:
                return {ACCEPT}, 'trailers'
            return {C(P), S(P)}, None
        # receiving a response
        if not st.r_final:
            if kind == 'final':
                return {ACCEPT}, 'response'
            if kind == 'info':
                if end_stream:
                    return {C(P), S(P)}, None
                return {ACCEPT}, 'informational'
            return {C(P), S(P)}, None
        if kind == 'trailers' and not st.r_trailers and end_stream:
            return {ACCEPT}, 'trailers'
        return {C(P), S(P)}, None

    def receiving_requests(self, st):
        """True if what arrives on this stream is a request (we are the server side of it)."""
        return not st.local and not st.pushed

    def apply_recv_headers(self, sid, what, end_stream):
        self.seen_headers = True
        st = self.get(sid)
        if st is None:
            st = self.streams[sid] = Stream(sid, local=False)
            self.hi_peer = max(self.hi_peer, sid)
        if what == 'request':
            st.state = OPEN
            st.r_final = True
        elif what == 'response':
            if st.state == RES_REMOTE:
                st.state = HC_LOCAL
            st.r_final = True
        elif what == 'informational':
            st.r_info += 1
        elif what == 'trailers':
            st.r_trailers = True
        if end_stream:
            st.recv_end()
        return st

    def recv_data_verdict(self, sid):
        cls = self.classify(sid)
        st = self.get(sid)
        if cls == 'idle':
            return {C(P), S(SC)}
        if cls == 'implicit':
            return {S(SC), C(P), C(SC)}
        if st.state == CLOSED:
            if st.closed_by == 'send-rst':
                return {IGNORE, S(SC)}
            if st.closed_by == 'recv-rst':
                return {S(SC), C(SC)}
            return {C(SC), S(SC)}
        if st.state in (RES_LOCAL, RES_REMOTE):
            return {C(P), S(SC)}
        if st.state == HC_REMOTE:
            return {S(SC), C(SC)}
        if st.r_trailers:
            return {C(P), S(P)}
        if not st.r_final:
            return {C(P), S(P)}
        return {ACCEPT}

    def recv_rst_verdict(self, sid):
        cls = self.classify(sid)
        st = self.get(sid)
        if cls == 'idle':
            return {C(P), IGNORE}
        if cls == 'implicit':
            return {IGNORE, C(P)}
        if st.state == CLOSED:
            return {IGNORE}
        return {ACCEPT}

    def recv_window_update_verdict(self, sid):
        cls = self.classify(sid)
        st = self.get(sid)
        if cls == 'idle':
            return {C(P)}
        if cls == 'implicit':
            return {IGNORE, C(P)}
        if st.state == CLOSED:
            return {IGNORE}
        if st.state == RES_REMOTE:
            return {C(P), ACCEPT}
        return {ACCEPT}

    def recv_push_verdict(self, parent, promised):
        if not self.client:
            return {C(P)}
        if not self.local_enable_push:
            return {C(P)}
        cls = self.classify(parent)
        st = self.get(parent)
        bad = set()
        if promised % 2 or promised <= self.hi_peer:
            # a promised id the peer may not use (C09): PROTOCOL_ERROR, or by how that id was closed
            # (C09 as stated: by how that id was closed if it is a known closed stream, PROTOCOL_ERROR otherwise)
            bad = {C(P)}
            pst = self.get(promised)
            if pst is not None and pst.state == CLOSED and promised % 2 == 0:
                if pst.closed_by in ('send-rst', 'recv-rst'):
                    bad = {('refuse-promise',), S(SC), C(SC)}
                else:
                    bad = {C(SC)}
        if cls in ('idle', 'implicit'):
            return {C(P)}
        if parent % 2 == 0 or not st.local:
            # a push on a pushed stream violates the protocol whatever happened to that stream
            base = {C(P)}
            if st.state == CLOSED and st.closed_by == 'send-rst':
                base |= {('refuse-promise',), IGNORE}
        elif st.state == CLOSED and st.closed_by == 'send-rst':
            base = {('refuse-promise',), IGNORE}
        elif st.state == CLOSED:
            base = {C(P), C(SC)}
        elif st.state in (OPEN, HC_LOCAL):
            base = {ACCEPT}
        else:
            base = {C(P), C(SC)}
        if bad:
            return (base - {ACCEPT}) | bad
        return base

    def apply_recv_push(self, parent, promised):
        st = self.streams[promised] = Stream(promised, local=False, pushed=True)
        st.state = RES_REMOTE
        st.s_final = st.s_ended = True
        self.hi_peer = max(self.hi_peer, promised)
        return st
