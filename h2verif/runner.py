"""Seeding, 16-way sharding, case accounting, shrinking, replay files,
evidence, known findings and exit codes (DESIGN.md s3.2, s6)."""
import argparse
import collections
import fnmatch
import hashlib
import importlib
import json
import multiprocessing
import os
import sys
import time
import traceback

ROOT = os.path.dirname(os.path.dirname(os.path.abspath(__file__)))
NPROC = int(os.environ.get('H2VERIF_NPROC', '16'))


class Result:
    """What one executed case reports."""
    __slots__ = ('violations', 'labels', 'nontrivial', 'trace', 'excluded',
                 'known', 'evals')

    def __init__(self):
        self.violations = []     # [(key, detail)]
        self.labels = set()
        self.nontrivial = False
        self.trace = []          # JSON-able concrete steps
        self.excluded = collections.Counter()
        self.known = collections.Counter()
        self.evals = 1           # executions against the implementation in this case

    def violate(self, key, detail=''):
        self.violations.append((key, detail))

    def step(self, *item):
        self.trace.append(jsonable(item))


def jsonable(x):
    if isinstance(x, (bytes, bytearray, memoryview)):
        b = bytes(x)
        if len(b) > 48:
            return 'hex:%s..(%d bytes)' % (b[:24].hex(), len(b))
        return 'hex:' + b.hex()
    if isinstance(x, (list, tuple)):
        return [jsonable(i) for i in x]
    if isinstance(x, dict):
        return {str(k): jsonable(v) for k, v in x.items()}
    if isinstance(x, (set, frozenset)):
        return sorted(jsonable(i) for i in x)
    if isinstance(x, (int, float, str, bool)) or x is None:
        return x
    return repr(x)


def digest(trace):
    return hashlib.blake2b(repr(trace).encode(), digest_size=8).digest()


def load_known():
    path = os.path.join(ROOT, 'known_findings.json')
    if not os.path.exists(path):
        return []
    with open(path) as f:
        return json.load(f)['findings']


def known_for(prop_id, status=None):
    return [k for k in load_known()
            if prop_id in k['properties'] and
            (status is None or k['status'] == status)]


def match_known(key, entries):
    for e in entries:
        for pat in e.get('keys', [e.get('key')]):
            if pat and fnmatch.fnmatchcase(key, pat):
                return e
    return None


# ---------------------------------------------------------------------------
# worker

def _shard(args):
    prop_id, tier, seed, shard, cases, size = args
    try:
        from hypothesis import given, settings, strategies as st, Phase, \
            HealthCheck
        import hypothesis
        prop = importlib.import_module('h2verif.props.' + prop_id)
        if hasattr(prop, 'configure'):
            prop.configure(known_for(prop_id, 'known'))
        known = known_for(prop_id, 'known')
        acc = {
            'evaluations': 0, 'cases': 0, 'nontrivial': set(), 'labels': collections.Counter(),
            'samples': [], 'violations': {}, 'excluded': collections.Counter(),
            'known_hits': collections.Counter(), 'error': None,
        }

        def one(data):
            r = prop.run_case(data)
            acc['evaluations'] += r.evals
            acc['cases'] += 1
            for lab in r.labels:
                acc['labels'][lab] += 1
            acc['excluded'].update(r.excluded)
            acc['known_hits'].update(r.known)
            if r.nontrivial:
                d = digest(r.trace)
                if d not in acc['nontrivial']:
                    acc['nontrivial'].add(d)
                    if len(acc['samples']) < 2:
                        acc['samples'].append(r.trace)
            for key, detail in r.violations:
                e = match_known(key, known)
                if e is not None:
                    acc['known_hits'][e['id']] += 1
                    continue
                old = acc['violations'].get(key)
                if old is None or len(data) < len(old[0]):
                    acc['violations'][key] = (bytes(data), detail)

        @hypothesis.seed(seed * 1000 + shard)
        @settings(max_examples=cases, database=None, deadline=None,
                  phases=[Phase.generate], report_multiple_bugs=False,
                  suppress_health_check=list(HealthCheck),
                  derandomize=False)
        @given(st.binary(min_size=size, max_size=size))
        def t(data):
            one(data)

        t()
        acc['labels'] = dict(acc['labels'])
        acc['excluded'] = dict(acc['excluded'])
        acc['known_hits'] = dict(acc['known_hits'])
        return acc
    except BaseException:   # noqa: BLE001 - harness error, reported as such
        return {'error': traceback.format_exc()}


def _grid_chunk(args):
    prop_id, tier, items = args
    try:
        prop = importlib.import_module('h2verif.props.' + prop_id)
        if hasattr(prop, 'configure'):
            prop.configure(known_for(prop_id, 'known'))
        known = known_for(prop_id, 'known')
        out = {'evaluations': 0, 'nontrivial': set(), 'violations': {},
               'samples': [], 'labels': collections.Counter(),
               'known_hits': collections.Counter(), 'error': None}
        for it in items:
            r = prop.run_grid_item(it)
            out['evaluations'] += r.evals
            for lab in r.labels:
                out['labels'][lab] += 1
            out['known_hits'].update(r.known)
            if r.nontrivial:
                d = digest(r.trace)
                if d not in out['nontrivial']:
                    out['nontrivial'].add(d)
                    if len(out['samples']) < 1:
                        out['samples'].append(r.trace)
            for key, detail in r.violations:
                e = match_known(key, known)
                if e is not None:
                    out['known_hits'][e['id']] += 1
                    continue
                if key not in out['violations']:
                    out['violations'][key] = (it, detail)
        out['labels'] = dict(out['labels'])
        out['known_hits'] = dict(out['known_hits'])
        return out
    except BaseException:   # noqa: BLE001
        return {'error': traceback.format_exc()}


def _atheris_campaign(prop_id, seed, runs, size):
    """NPROC independent libFuzzer workers (half from an empty corpus, half from a few
    seed inputs), bounded by -runs, per-worker corpus dirs in a temp dir that is removed."""
    import shutil
    import subprocess
    import tempfile
    deps = os.path.join(ROOT, '.deps')
    env = dict(os.environ)
    env['PYTHONPATH'] = os.pathsep.join([os.environ.get('H2VERIF_SRC', '/repo/src'), ROOT, deps])
    probe = subprocess.run([sys.executable, '-c', 'import atheris'], env=env, capture_output=True)
    if probe.returncode != 0:
        return {'skipped': 'atheris not importable (run ./setup.sh)'}
    tmp = tempfile.mkdtemp(prefix='h2verif-fuzz-')
    try:
        procs = []
        per = max(1, runs // NPROC)
        for i in range(NPROC):
            d = os.path.join(tmp, 'w%d' % i)
            os.makedirs(os.path.join(d, 'corpus'))
            if i % 2:
                for j in range(8):
                    blob = b''
                    ctr = 0
                    while len(blob) < size:
                        blob += hashlib.blake2b(b'%d/%d/%d/%d' % (seed, i, j, ctr)).digest()
                        ctr += 1
                    with open(os.path.join(d, 'corpus', 'seed%d' % j), 'wb') as f:
                        f.write(blob[:size])
            # (-runs bounds the campaign; -max_total_time is only a backstop for workers whose inputs have grown
            # expensive under instrumentation - what was executed is reported, fewer runs are not a failure)
            cmd = [sys.executable, '-m', 'h2verif.athfuzz', prop_id, d, '-runs=%d' % per,
                   '-seed=%d' % (seed * 1000 + i + 1), '-max_len=%d' % size, '-print_final_stats=1',
                   '-max_total_time=%d' % (1800 if per > 5000 else 420), os.path.join(d, 'corpus')]
            procs.append((d, subprocess.Popen(cmd, env=env, cwd=ROOT, stdout=subprocess.DEVNULL,
                                              stderr=subprocess.PIPE, text=True)))
        total = 0
        evals = 0
        digests = set()
        found = {}
        inconclusive = []
        for d, p in procs:
            _, err = p.communicate()
            if p.returncode != 0 and 'libFuzzer: timeout' in err:
                # one input kept the worker busy beyond libFuzzer's -timeout without burning CPU in Python code
                # (or the machine was starved): that worker's campaign is inconclusive from there on; what it
                # found before still counts
                inconclusive.append('worker %s: libFuzzer timeout: %s' % (
                    os.path.basename(d), ' '.join(l for l in err.splitlines() if 'Base64:' in l)[:200]))
            elif p.returncode != 0:
                # the reason is rarely at the very end (libFuzzer prints its statistics and dictionary last)
                lines = err.splitlines()
                marks = [i for i, l in enumerate(lines) if 'Traceback' in l or 'ERROR' in l or 'Uncaught' in l
                         or 'deadly signal' in l or 'timeout' in l.lower()]
                first = max(0, marks[0] - 3) if marks else max(0, len(lines) - 40)
                return {'error': 'atheris worker failed (exit %s):\n%s' % (p.returncode,
                                                                           '\n'.join(lines[first:first + 60]))}
            n = 0
            for line in err.splitlines():
                if line.startswith('stat::number_of_executed_units:'):
                    n = int(line.split(':')[-1])
            total += n
            try:
                a_n, a_e = open(os.path.join(d, 'stats.txt')).read().split()
                evals += max(int(a_e), n)
            except (OSError, ValueError):
                evals += n
            try:
                for line in open(os.path.join(d, 'slow.txt')):
                    inconclusive.append('worker %s: case abandoned after 60 s of CPU: %s' % (
                        os.path.basename(d), line.rstrip('\n')[:1200]))
            except OSError:
                pass
            blob = open(os.path.join(d, 'digests.bin'), 'rb').read()
            for k in range(0, len(blob) - 7, 8):
                digests.add(blob[k:k + 8])
            for line in open(os.path.join(d, 'findings.txt')):
                parts = line.rstrip('\n').split('\t')
                if len(parts) >= 2:
                    data = bytes.fromhex(parts[1])
                    if parts[0] not in found or len(data) < len(found[parts[0]][0]):
                        found[parts[0]] = (data, parts[2] if len(parts) > 2 else '')
        return {'tool': 'atheris/libFuzzer', 'workers': NPROC, 'runs_per_worker': per,
                'executed_units': total, 'evaluations': evals, 'distinct_nontrivial_seen': len(digests),
                'corpus': 'even workers: empty corpus; odd workers: 8 seed inputs',
                'inconclusive': inconclusive,
                'digests': digests, 'found': found}
    finally:
        shutil.rmtree(tmp, ignore_errors=True)


# ---------------------------------------------------------------------------
# shrinking: bounded delta debugging over the case bytes

def ddmin(data, pred, budget, seconds=None):
    """Smallest byte string found (by chunk removal, then zeroing) for which
    pred() still holds.  Bounded by ``budget`` predicate evaluations and, for
    properties whose cases are long runs, by ``seconds`` of wall time (running
    out of either only makes the reproduction less minimal)."""
    data = bytes(data).rstrip(b'\0')
    used = [0]
    t0 = time.time()

    def ok(d):
        if used[0] >= budget or (seconds is not None and used[0] and time.time() - t0 > seconds):
            return False
        used[0] += 1
        try:
            return pred(d)
        except Exception:   # noqa: BLE001 - a harness error is not the failure we minimise
            return False

    if not ok(data):
        return data
    n = 2
    while len(data) >= 1 and used[0] < budget:
        chunk = max(1, len(data) // n)
        reduced = False
        i = 0
        while i < len(data) and used[0] < budget:
            cand = data[:i] + data[i + chunk:]
            if ok(cand):
                data = cand
                reduced = True
            else:
                i += chunk
        if reduced:
            n = max(n - 1, 2)
        else:
            if chunk == 1:
                break
            n = min(len(data), n * 2)
    # lower individual bytes
    i = 0
    while i < len(data) and used[0] < budget:
        if data[i]:
            for v in (0, 1, data[i] // 2):
                if v < data[i]:
                    cand = data[:i] + bytes([v]) + data[i + 1:]
                    if ok(cand):
                        data = cand
                        break
        i += 1
    return data.rstrip(b'\0')


# ---------------------------------------------------------------------------

def write_replay(prop_id, key, detail, data=None, item=None, trace=None,
                 finding=None):
    d = os.path.join(ROOT, 'replays', prop_id)
    os.makedirs(d, exist_ok=True)
    body = {'property': prop_id, 'key': key, 'detail': detail}
    if data is not None:
        body['kind'] = 'case'
        body['data_hex'] = bytes(data).hex()
    elif item is not None:
        body['kind'] = 'grid'
        body['item'] = jsonable(item)
        body['item_repr'] = repr(item)
    else:
        body['kind'] = 'finding'
        body['finding'] = finding
    if trace is not None:
        body['trace'] = trace
    h = hashlib.sha1(json.dumps(body, sort_keys=True).encode()).hexdigest()[:16]
    path = os.path.join(d, h + '.json')
    with open(path, 'w') as f:
        json.dump(body, f, indent=1, sort_keys=True)
    return path


def replay(prop, prop_id, path):
    import ast
    with open(path) as f:
        body = json.load(f)
    kind = body.get('kind')
    if kind == 'case':
        r = prop.run_case(bytes.fromhex(body['data_hex']))
        viols = r.violations
        trace = r.trace
    elif kind == 'grid':
        r = prop.run_grid_item(ast.literal_eval(body['item_repr']))
        viols = r.violations
        trace = r.trace
    elif kind == 'finding':
        keys = prop.FINDINGS[body['finding']]()
        viols = [(k, '') for k in keys]
        trace = None
    else:
        print('unknown replay kind', kind)
        return 2
    if trace is not None:
        print(json.dumps(trace, indent=1))
    if viols:
        for k, d in viols:
            print('violation key=%s %s' % (k, d))
        print('VIOLATION property=%s replay=%s' % (prop_id, path))
        return 1
    print('replay passes: no violation')
    return 0


def main(argv=None):
    ap = argparse.ArgumentParser()
    ap.add_argument('prop')
    ap.add_argument('--tier', default=os.environ.get('VERIF_TIER') or 'quick',
                    choices=['quick', 'thorough'])
    ap.add_argument('--replay')
    ap.add_argument('--cases', type=int)
    ap.add_argument('--no-evidence', action='store_true')
    a = ap.parse_args(argv)
    prop_id = a.prop
    try:
        seed = int(os.environ.get('VERIF_SEED') or '1')
    except ValueError:
        seed = 1
    t0 = time.time()
    try:
        prop = importlib.import_module('h2verif.props.' + prop_id)
        if hasattr(prop, 'configure'):
            prop.configure(known_for(prop_id, 'known'))
    except Exception:   # noqa: BLE001
        traceback.print_exc()
        print('HARNESS-ERROR: cannot import property module %s' % prop_id)
        return 2
    if a.replay:
        return replay(prop, prop_id, a.replay)

    tier = a.tier
    cfg = dict(prop.TIERS[tier])
    if a.cases:
        cfg['cases'] = a.cases
    exit_code = 0
    violations = []        # (key, detail, replay path)
    known_lines = []
    findings_state = {}

    # 1. known / fixed findings: scripted minimal reproductions
    scripted = getattr(prop, 'FINDINGS', {})
    for e in known_for(prop_id):
        fn = scripted.get(e['id'])
        if fn is None:
            continue
        try:
            keys = fn()
        except Exception:   # noqa: BLE001
            traceback.print_exc()
            print('HARNESS-ERROR: finding replay %s crashed' % e['id'])
            return 2
        reproduces = bool(keys)
        findings_state[e['id']] = {'status': e['status'],
                                   'reproduces': reproduces}
        if e['status'] == 'known':
            if reproduces:
                known_lines.append('KNOWN-FINDING: property=%s %s' %
                                   (prop_id, e['what']))
        elif e['status'] == 'fixed' and reproduces:
            p = write_replay(prop_id, keys[0], 'fixed finding %s reproduces '
                             'again' % e['id'], finding=e['id'])
            violations.append((keys[0], 'regression of fixed finding ' + e['id'], p))

    # 2. enumerated part
    total_eval = 0
    total_cases = 0
    nontrivial = set()
    labels = collections.Counter()
    samples = []
    excluded = collections.Counter()
    known_hits = collections.Counter()
    exhaustive_part = None
    pool = multiprocessing.get_context('fork').Pool(NPROC)
    try:
        if hasattr(prop, 'grid_items'):
            items = list(prop.grid_items(tier))
            exhaustive_part = len(items)
            nchunks = NPROC * 4
            chunks = [items[i::nchunks] for i in range(nchunks)]
            for out in pool.imap_unordered(
                    _grid_chunk, [(prop_id, tier, c) for c in chunks if c]):
                if out.get('error'):
                    print(out['error'])
                    print('HARNESS-ERROR: grid worker crashed')
                    return 2
                total_eval += out['evaluations']
                nontrivial |= out['nontrivial']
                labels.update(out['labels'])
                known_hits.update(out['known_hits'])
                if len(samples) < 2:
                    samples.extend(out['samples'][:1])
                for key, (it, detail) in out['violations'].items():
                    if not any(v[0] == key for v in violations):
                        r = prop.run_grid_item(it)
                        p = write_replay(prop_id, key, detail, item=it,
                                         trace=r.trace)
                        violations.append((key, detail, p))

        # 3. generated part
        cases = cfg.get('cases', 0)
        per = (cases + NPROC - 1) // NPROC if cases else 0
        found = {}
        if per:
            jobs = [(prop_id, tier, seed, i, per, cfg['size'])
                    for i in range(NPROC)]
            for out in pool.imap_unordered(_shard, jobs):
                if out.get('error'):
                    print(out['error'])
                    print('HARNESS-ERROR: worker crashed')
                    return 2
                total_eval += out['evaluations']
                total_cases += out['cases']
                nontrivial |= out['nontrivial']
                labels.update(out['labels'])
                excluded.update(out['excluded'])
                known_hits.update(out['known_hits'])
                if len(samples) < 3:
                    samples.extend(out['samples'][:1])
                for key, (data, detail) in out['violations'].items():
                    if key not in found or len(data) < len(found[key][0]):
                        found[key] = (data, detail)
    finally:
        pool.terminate()
        pool.join()

    # 3b. coverage-guided campaign over the same case bytes (atheris / libFuzzer)
    fuzz_info = None
    runs = cfg.get('atheris_runs', 0)
    if runs and not a.cases:
        fuzz_info = _atheris_campaign(prop_id, seed, runs, cfg['size'])
        if fuzz_info.get('error'):
            print(fuzz_info['error'])
            print('HARNESS-ERROR: atheris campaign failed')
            return 2
        if not fuzz_info.get('skipped'):
            for line in fuzz_info.get('inconclusive', [])[:5]:
                print('INCONCLUSIVE (coverage-guided stage): %s' % line[:300])
            total_eval += fuzz_info['evaluations']
            nontrivial |= fuzz_info.pop('digests')
            for key, (data, detail) in fuzz_info.pop('found').items():
                if key not in found or len(data) < len(found[key][0]):
                    found[key] = (data, detail)

    # 4. shrink each root cause (key) and write replays
    budget = 400 if tier == 'quick' else 3000
    shrink_seconds = (20 if tier == 'quick' else 120) / max(1, min(8, len(found)))
    for key in sorted(found)[:8]:
        data, detail = found[key]

        def pred(d, key=key):
            return any(k == key for k, _ in prop.run_case(d).violations)
        small = ddmin(data, pred, budget, shrink_seconds * 4 if len(found) == 1 else shrink_seconds * 2)
        r = prop.run_case(small)
        det = next((d for k, d in r.violations if k == key), detail)
        p = write_replay(prop_id, key, det, data=small, trace=r.trace)
        violations.append((key, det, p))
    for key in sorted(found)[8:]:
        data, detail = found[key]
        p = write_replay(prop_id, key, detail, data=data)
        violations.append((key, detail, p))

    for line in known_lines:
        print(line)
    for key, detail, p in violations:
        print('violation key=%s %s' % (key, str(detail)[:300]))
        print('VIOLATION property=%s replay=%s' % (prop_id, p))
        exit_code = 1

    wall = time.time() - t0
    if not a.no_evidence:
        cov = {
            'evaluations': total_eval,
            'distinct_nontrivial': len(nontrivial),
            'rule': prop.RULE,
            'samples': samples[:3],
            'labels': dict(sorted(labels.items())),
            'excluded_by_construction': dict(excluded),
            'known_finding_hits_in_exploration': dict(known_hits),
            'known_findings': findings_state,
            'generated_cases': total_cases,
            'case_bytes': cfg.get('size', 0),
            'shards': NPROC,
            'violation_keys': [v[0] for v in violations],
        }
        if fuzz_info is not None:
            cov['coverage_guided'] = fuzz_info
        if exhaustive_part is not None:
            cov['enumerated_items'] = exhaustive_part
            cov['exhaustive'] = bool(getattr(prop, 'GRID_EXHAUSTIVE', False))
            cov['exhaustive_note'] = getattr(prop, 'GRID_NOTE', '')
        evd = {
            'property_id': prop_id, 'tier': tier, 'seed': seed,
            'level': getattr(prop, 'LEVEL', 'exploration'),
            'coverage': cov,
            'assumptions': list(getattr(prop, 'ASSUMPTIONS', [])) + [
                'hpack, hyperframe and CPython are trusted',
                'source under test: ' + os.environ.get('H2VERIF_SRC', '/repo/src'),
            ],
            'wall_s': round(wall, 2),
            'violations': len(violations),
        }
        os.makedirs(os.path.join(ROOT, 'evidence'), exist_ok=True)
        with open(os.path.join(ROOT, 'evidence', prop_id + '.json'), 'w') as f:
            json.dump(evd, f, indent=1, sort_keys=True)
    print('%s tier=%s seed=%d evaluations=%d distinct_nontrivial=%d '
          'violations=%d wall=%.1fs' % (prop_id, tier, seed, total_eval,
                                        len(nontrivial), len(violations), wall))
    return exit_code
