"""Regenerates /verif/MANIFEST.json from the property modules that exist."""
import importlib
import json
import os

ROOT = os.path.dirname(os.path.dirname(os.path.abspath(__file__)))

ENGINES = [
    {'name': 'E1 pair', 'path': 'h2verif/pair.py', 'kind_free_text':
     'two H2Connection endpoints, harness-owned byte pipes and delivery schedule, one RFC model per endpoint, '
     'ledger oracle computed from call arguments + twin replay without the raising calls'},
    {'name': 'E2 solo', 'path': 'h2verif/solo.py', 'kind_free_text':
     'one endpoint under test, scripted peer built from the independent codec wire.py and hpack mirror'},
    {'name': 'E3 bytes', 'path': 'h2verif/bytesgen.py', 'kind_free_text':
     'byte-level generation (peer-model byte streams + mutators) and, through h2verif/athfuzz.py, atheris '
     'coverage-guided mutation of the case bytes, with in-target oracles'},
    {'name': 'E4 subprocess', 'path': 'h2verif/props/C28.py', 'kind_free_text':
     'the same generated program executed in child interpreters with other PYTHONHASHSEED values and shifted '
     'clocks; per-step transcripts compared'},
]


def build():
    props = [json.loads(l) for l in open(os.path.join(ROOT, 'properties.jsonl'))]
    checks = []
    na = []
    for p in props:
        pid = p['id']
        try:
            m = importlib.import_module('h2verif.props.' + pid)
        except ImportError:
            na.append({'property_id': pid, 'reason':
                       'check not built yet in this tree (planned in DESIGN.md section 5); '
                       'nothing is claimed for it'})
            continue
        checks.append({
            'property_id': pid,
            'quick_cmd': './check %s --tier quick' % pid,
            'thorough_cmd': './check %s --tier thorough' % pid,
            'evidence_file': 'evidence/%s.json' % pid,
            'replay_cmd_template': './check %s --replay {path}' % pid,
            'engine': getattr(m, 'ENGINE', 'E2 solo'),
            'level_claimed': {
                'category': getattr(m, 'LEVEL', 'exploration'),
                'text': getattr(m, 'LEVEL_TEXT', 'Generated-input search against an explicit oracle: '
                                'a pass means no counterexample among the generated (and, where stated, '
                                'enumerated) cases; it is not a proof.'),
                'design_ref': 'DESIGN.md section 5, ' + pid,
            },
            'level_note': '; '.join(getattr(m, 'ASSUMPTIONS', [])) or 'hpack, hyperframe, CPython trusted',
            'technique': m.TECHNIQUE,
        })
    man = {
        'version': 1,
        'setup_cmd': './setup.sh',
        'hooks': {
            'guard': 'H2_VERIF',
            'enable': 'no hooks: every observation point is public API (plus read-only len() of two '
                      'private tables for C27); checks import /repo/src directly',
            'baseline_off_cmd': 'cd /repo && /venv/bin/python -m pytest -q -p no:cacheprovider --timeout=900',
            'source_commits': [],
            'add_only': True,
        },
        'engines': [dict(e, serves_properties=[c['property_id'] for c in checks
                                               if c['engine'] == e['name']]) for e in ENGINES],
        'checks': checks,
        'not_applicable': na,
        'notes': 'Technique family: property-based testing and fuzzing (Hypothesis-generated case bytes '
                 'decoded into structured cases, model/differential/metamorphic oracles, delta-debugging '
                 'shrinker, plain replay files). VERIF_SEED and VERIF_TIER are honoured. See DESIGN.md.',
    }
    with open(os.path.join(ROOT, 'MANIFEST.json'), 'w') as f:
        json.dump(man, f, indent=1)
    return man


if __name__ == '__main__':
    m = build()
    print('checks:', [c['property_id'] for c in m['checks']])
    print('not_applicable:', [c['property_id'] for c in m['not_applicable']])
