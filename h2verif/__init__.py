"""Property-based testing / fuzzing machinery for hyper-h2 (see /verif/DESIGN.md)."""
