"""Header-list grammar, RFC 7540 s8.1.2 conformance predicate and the
documented normalisation - all independent of h2.utilities.

Block kinds: 'request', 'push' (pushed request), 'response', 'informational',
'trailers'.
"""
WS = b' \t\n\r\x0b\x0c'
CONNECTION_SPECIFIC = (b'connection', b'proxy-connection', b'keep-alive',
                       b'transfer-encoding', b'upgrade')
PSEUDO_KNOWN = (b':method', b':scheme', b':authority', b':path', b':status', b':protocol')
REQUEST_PSEUDO = (b':method', b':scheme', b':authority', b':path', b':protocol')
SECURE = (b'authorization', b'proxy-authorization')

OK, BAD, DONTCARE = 'ok', 'bad', 'dontcare'


def b(x):
    return x.encode('utf-8') if isinstance(x, str) else bytes(x)


def conformance(fields, kind):
    """fields: [(name bytes, value bytes)] as decoded.  Returns (verdict, reasons).

    Verdict DONTCARE is returned when the only deviations lie in zones the
    property / RFC leave open (see DESIGN.md s3.3)."""
    bad = []
    soft = []
    seen_regular = False
    pseudo = []
    hosts = []
    method = None
    for name, value in fields:
        if len(name) == 0:
            bad.append('empty-name')
            continue
        if any(65 <= c <= 90 for c in name):
            bad.append('uppercase-name')
        if name[0] in WS or name[-1] in WS:
            bad.append('name-whitespace')
        if value and (value[0] in WS or value[-1] in WS):
            bad.append('value-whitespace')
        if name in CONNECTION_SPECIFIC:
            bad.append('connection-specific')
        if name == b'te':
            if value == b'trailers':
                pass
            elif value.lower() == b'trailers':
                soft.append('te-case-variant')
            else:
                bad.append('te-not-trailers')
        if name[:1] == b':':
            if seen_regular:
                bad.append('pseudo-after-regular')
            if name in pseudo:
                bad.append('duplicate-pseudo')
            pseudo.append(name)
            if name not in PSEUDO_KNOWN:
                bad.append('unknown-pseudo')
            if name == b':method' and method is None:
                method = value
        else:
            seen_regular = True
            if name == b'host':
                hosts.append(value)
    ps = set(pseudo)
    if kind == 'trailers':
        if ps:
            bad.append('pseudo-in-trailers')
    elif kind in ('response', 'informational'):
        if b':status' not in ps:
            bad.append('missing-status')
        if ps & set(REQUEST_PSEUDO):
            bad.append('request-pseudo-in-response')
    else:
        if b':status' in ps:
            bad.append('status-in-request')
        connect = method == b'CONNECT'
        for req in (b':method', b':scheme', b':path'):
            if req not in ps:
                if connect and req != b':method':
                    soft.append('connect-without' + req.decode())
                else:
                    bad.append('missing-' + req.decode()[1:])
        if connect and (b':scheme' in ps or b':path' in ps) and b':protocol' not in ps:
            soft.append('plain-connect-with-scheme-or-path')
        if b':protocol' in ps and not connect:
            bad.append('protocol-without-connect')
        auth = [v for n, v in fields if n == b':authority']
        if not auth and not hosts:
            bad.append('missing-authority-and-host')
        if len(hosts) > 1:
            soft.append('several-host-fields')
        elif auth and hosts and auth[0] != hosts[0]:
            bad.append('authority-host-mismatch')
        for n, v in fields:
            if n == b':path' and len(v) == 0:
                bad.append('empty-path')
    if bad:
        return BAD, bad
    if soft:
        return DONTCARE, soft
    return OK, []


def normalize_outbound(fields):
    """Documented outbound normalisation.  fields: [(name, value, never)] with
    bytes or str; returns [(name bytes, value bytes, never)]."""
    out = []
    for name, value, never in fields:
        n = b(name).lower().strip(WS)
        v = b(value).strip(WS)
        if n in CONNECTION_SPECIFIC:
            continue
        if n in SECURE or (n == b'cookie' and len(v) < 20):
            never = True
        out.append((n, v, never))
    return out


def expected_inbound(fields, normalize):
    """What a receiver must deliver for decoded [(name, value, never)]."""
    if not normalize:
        return list(fields)
    out = [f for f in fields if f[0] != b'cookie']
    cookies = [f[1] for f in fields if f[0] == b'cookie']
    if cookies:
        out.append((b'cookie', b'; '.join(cookies), True))
    return out


# ---------------------------------------------------------------------------
# generation

TOKENS = [b'x-a', b'accept', b'user-agent', b'content-type', b'x-trace', b'server', b'etag', b'date',
          b'cookie', b'authorization', b'proxy-authorization', b'te', b'host', b'content-length-x',
          # legal field names without a single letter (RFC 7230 token characters)
          b'42', b'_', b'1-2']
VALUES = [b'v', b'text/html', b'abc=def', b'0123456789abcdefghijklmnop', b'', b'a b', b'trailers']


def skeleton(ch, kind):
    """A conformant list for the block kind."""
    if kind in ('request', 'push'):
        method = ch.pick([b'GET', b'POST', b'HEAD', b'PUT'])
        fs = [(b':method', method), (b':scheme', ch.pick([b'https', b'http'])),
              (b':path', ch.pick([b'/', b'/a/b?c=d', b'*']))]
        mode = ch.int(0, 2)
        auth = ch.pick([b'example.com', b'h:8080', b'a.b'])
        if mode in (0, 2):
            fs.insert(ch.int(0, 3), (b':authority', auth))
        rest = []
        if mode in (1, 2):
            rest.append((b'host', auth))
        # pseudo-header order is free
        if ch.chance(64):
            i = ch.int(0, len(fs) - 1)
            fs.append(fs.pop(i))
    elif kind == 'response':
        fs = [(b':status', ch.pick([b'200', b'404', b'204', b'304', b'500']))]
        rest = []
    elif kind == 'informational':
        fs = [(b':status', ch.pick([b'100', b'103', b'199']))]
        rest = []
    else:
        fs = []
        rest = [(b'x-checksum', b'abc')]
    for _ in range(ch.small(4)):
        n = ch.pick(TOKENS)
        if n == b'te':
            v = b'trailers'
        elif n == b'host':
            continue
        else:
            v = ch.pick(VALUES)
            if n == b'cookie' and ch.bool():
                v = b'k=' + v
        rest.append((n, v))
    return fs + rest


DEFECTS = {
    'all': ['upper-name', 'ws-name-lead', 'ws-name-trail', 'ws-value-lead', 'ws-value-trail',
            'conn-header', 'te-bad', 'te-case', 'pseudo-after-regular', 'dup-pseudo', 'unknown-pseudo',
            'cookie-multi', 'cookie-before-pseudo', 'odd-bytes', 'empty-name', 'empty-value'],
    'request': ['missing-method', 'missing-scheme', 'missing-path', 'missing-authority-host',
                'status-in-request', 'host-mismatch', 'host-match', 'empty-path', 'protocol-without-connect',
                'connect', 'several-hosts'],
    'response': ['missing-status', 'request-pseudo-in-response'],
    'trailers': ['pseudo-in-trailers'],
}


def defects_for(kind):
    k = {'push': 'request', 'informational': 'response'}.get(kind, kind)
    return DEFECTS['all'] + DEFECTS[k]


def apply_defect(ch, fs, d, kind):
    """Mutate list ``fs`` ([(name, value)] bytes) in place according to defect d."""
    regular = [i for i, f in enumerate(fs) if not f[0].startswith(b':')]
    pseudo = [i for i, f in enumerate(fs) if f[0].startswith(b':')]
    anyi = ch.int(0, len(fs) - 1) if fs else None
    ws = bytes([ch.pick(WS)])
    if d == 'upper-name':
        if anyi is None:
            return
        n, v = fs[anyi]
        j = ch.int(0, len(n) - 1)
        fs[anyi] = (n[:j] + n[j:j + 1].upper() + n[j + 1:], v)
    elif d == 'ws-name-lead' and anyi is not None:
        fs[anyi] = (ws + fs[anyi][0], fs[anyi][1])
    elif d == 'ws-name-trail' and anyi is not None:
        fs[anyi] = (fs[anyi][0] + ws, fs[anyi][1])
    elif d == 'ws-value-lead' and anyi is not None:
        fs[anyi] = (fs[anyi][0], ws + fs[anyi][1])
    elif d == 'ws-value-trail' and anyi is not None:
        fs[anyi] = (fs[anyi][0], fs[anyi][1] + ws)
    elif d == 'conn-header':
        fs.insert(ch.int(len(pseudo), len(fs)), (ch.pick(CONNECTION_SPECIFIC), b'x'))
    elif d == 'te-bad':
        fs.append((b'te', ch.pick([b'gzip', b'trailers, deflate', b'', b'Trailers;q=1'])))
    elif d == 'te-case':
        fs.append((b'te', ch.pick([b'Trailers', b'TRAILERS'])))
    elif d == 'pseudo-after-regular':
        if pseudo and kind != 'trailers':
            f = fs.pop(ch.pick(pseudo))
            if not any(not x[0].startswith(b':') for x in fs):
                fs.append((b'x-pad', b'1'))
            last_regular = max(i for i, x in enumerate(fs) if not x[0].startswith(b':'))
            fs.insert(ch.int(last_regular + 1, len(fs)), f)
    elif d == 'dup-pseudo':
        if pseudo:
            f = fs[ch.pick(pseudo)]
            fs.insert(ch.int(0, len(pseudo)), (f[0], ch.pick([f[1], b'other'])))
    elif d == 'unknown-pseudo':
        fs.insert(ch.int(0, len(pseudo)), (ch.pick([b':foo', b':', b':status2', b':methodx']), b'x'))
    elif d == 'cookie-multi':
        for _ in range(ch.int(2, 3)):
            fs.insert(ch.int(len(pseudo), len(fs)), (b'cookie', ch.pick([b'a=b', b'c=0123456789abcdefghij', b''])))
    elif d == 'cookie-before-pseudo':
        if pseudo:
            fs.insert(ch.int(0, max(0, len(pseudo) - 1)), (b'cookie', b'a=b'))
    elif d == 'odd-bytes':
        fs.append((ch.pick([b'x-bin', b'x\x00y', b'x-\xff', b'x-caf\xc3\xa9', b'x-caf\xe9']),
                   ch.pick([b'\x00', b'a\x00b', b'\xff\xfe', b'\xc3\xa9', b'\x80'])))
    elif d == 'empty-name':
        fs.insert(ch.int(len(pseudo), len(fs)), (b'', ch.pick([b'v', b''])))
    elif d == 'empty-value' and anyi is not None:
        fs[anyi] = (fs[anyi][0], b'')
    elif d.startswith('missing-') and d != 'missing-authority-host':
        name = b':' + d[8:].encode()
        fs[:] = [f for f in fs if f[0] != name]
    elif d == 'missing-authority-host':
        fs[:] = [f for f in fs if f[0] not in (b':authority', b'host')]
    elif d == 'status-in-request':
        fs.insert(ch.int(0, len(pseudo)), (b':status', b'200'))
    elif d == 'host-mismatch':
        fs[:] = [f for f in fs if f[0] != b'host']
        if not any(f[0] == b':authority' for f in fs):
            fs.insert(0, (b':authority', b'example.com'))
        fs.append((b'host', ch.pick([b'other.example', b'EXAMPLE.COM', b'example.com '])))
    elif d == 'host-match':
        fs[:] = [f for f in fs if f[0] != b'host']
        a = [f[1] for f in fs if f[0] == b':authority']
        fs.append((b'host', a[0] if a else b'example.com'))
    elif d == 'several-hosts':
        fs.append((b'host', b'example.com'))
        fs.append((b'host', ch.pick([b'example.com', b'b.example'])))
    elif d == 'empty-path':
        fs[:] = [(n, b'' if n == b':path' else v) for n, v in fs]
    elif d == 'protocol-without-connect':
        fs.insert(ch.int(0, len(pseudo)), (b':protocol', b'websocket'))
    elif d == 'connect':
        fs[:] = [(n, b'CONNECT' if n == b':method' else v) for n, v in fs]
        if ch.bool():
            fs.insert(ch.int(0, len(pseudo)), (b':protocol', b'websocket'))
        elif ch.bool():
            fs[:] = [f for f in fs if f[0] not in (b':scheme', b':path')]
    elif d == 'request-pseudo-in-response':
        fs.insert(ch.int(0, len(pseudo)), (ch.pick(REQUEST_PSEUDO), b'x'))
    elif d == 'pseudo-in-trailers':
        fs.insert(0, (ch.pick([b':status', b':method', b':path']), b'200'))


def gen_fields(ch, kind, allow=None):
    """Returns ([(name, value)], [defect labels])."""
    fs = skeleton(ch, kind)
    nd = ch.weighted([(5, 0), (8, 1), (2, 2), (1, 3)])
    pool = [d for d in defects_for(kind) if allow is None or allow(d)]
    used = []
    for _ in range(nd):
        d = ch.pick(pool)
        apply_defect(ch, fs, d, kind)
        used.append(d)
    return fs, used


def dress(ch, fs):
    """Outbound input forms for a byte list: str/bytes per tuple, mixed-case names,
    surrounding whitespace (which normalisation repairs), tuple classes.
    Returns [(name, value, cls)] with cls in 'tuple', 'HeaderTuple', 'NeverIndexedHeaderTuple'."""
    out = []
    for n, v in fs:
        if ch.chance(48) and n:
            j = ch.int(0, len(n) - 1)
            n = n[:j] + n[j:j + 1].upper() + n[j + 1:]
        if ch.chance(32):
            n = n + b' ' if ch.bool() else b'\t' + n
        if ch.chance(32):
            v = b' ' + v if ch.bool() else v + b'\t '
        cls = ch.weighted([(8, 'tuple'), (2, 'HeaderTuple'), (1, 'NeverIndexedHeaderTuple')])
        as_str = ch.chance(96)
        if as_str:
            try:
                n2, v2 = n.decode('utf-8'), v.decode('utf-8')
                n, v = n2, v2
            except UnicodeDecodeError:
                pass
        out.append((n, v, cls))
    return out


def materialize(dressed):
    from hpack import HeaderTuple, NeverIndexedHeaderTuple
    out = []
    for n, v, cls in dressed:
        if cls == 'tuple':
            out.append((n, v))
        elif cls == 'HeaderTuple':
            out.append(HeaderTuple(n, v))
        else:
            out.append(NeverIndexedHeaderTuple(n, v))
    return out
