"""C08 The library refuses to emit messages that violate HTTP/2 message rules."""
from .. import wire, model as M
from ..choose import Chooser
from ..runner import Result
from ..prog import World
from ..solo import Solo, REQ, RESP

ID = 'C08'
LEVEL = 'exploration'
ENGINE = 'E2 solo'
TECHNIQUE = ('property-based testing: generated send-side call programs vs. a sender-side message automaton, plus an '
             'output monitor that re-derives the message sequence per stream from the emitted frames')
RULE = ('cases: programs (4..35 steps) of send_headers (final / informational / trailers lists, with and without '
        'END_STREAM), send_data, end_stream, push_stream, prioritize, advertise_alternative_service and reset_stream '
        'in any order on new, inbound, pushed and upgraded streams of both roles, with just enough injected peer '
        'frames to create inbound and promised streams; oracle: predicted permit/refuse per call and a legal message '
        'sequence per stream in the emitted bytes; non-trivial = >= 1 refused call and >= 1 later emitted frame on '
        'the same stream, or a call on a stream id the role may not open; distinct by trace')
ASSUMPTIONS = ['K03: a stream (or connection) hit by a state-machine refusal is not used again',
               'K04: DATA / END_STREAM before the final header block is the one tolerated deviating cell']
TIERS = {'quick': {'cases': 5000, 'size': 300},
         'thorough': {'cases': 1600000, 'size': 400}}


class OutMonitor:
    """Message automaton over the frames actually emitted, per stream."""

    def __init__(self, client):
        self.client = client
        self.st = {}     # sid -> dict(final, trailers, ended, data_before_final)

    def feed(self, frames, w):
        for f in frames:
            sid = f.stream_id
            if f.type == wire.PRIORITY and not self.client:
                w.violate('output:server-emitted-PRIORITY', repr(f))
            if f.type == wire.ALTSVC and self.client:
                w.violate('output:client-emitted-ALTSVC', repr(f))
            if f.type == wire.PUSH_PROMISE:
                if self.client:
                    w.violate('output:client-emitted-PUSH_PROMISE', repr(f))
                elif sid % 2 == 0:
                    w.violate('output:push-on-pushed-stream', repr(f))
                self.st.setdefault(f.f.get('promised'), {'final': False, 'trailers': False, 'ended': False,
                                                         'promised': True})
            if f.type == wire.HEADERS:
                d = self.st.get(sid)
                hs = f.f.get('headers') or []
                pseudo = [n for n, _, _ in hs if n.startswith(b':')]
                status = [v for n, v, _ in hs if n == b':status']
                if d is None:
                    d = self.st[sid] = {'final': False, 'trailers': False, 'ended': False, 'promised': False}
                    if not self.client and sid % 2 == 0:
                        w.violate('output:server-opened-stream-with-HEADERS', repr(f))
                    if self.client and sid % 2 == 0:
                        w.violate('output:client-headers-on-even-stream', repr(f))
                if d['ended']:
                    w.violate('output:headers-after-END_STREAM', repr(f))
                if status and status[0].startswith(b'1'):
                    if self.client:
                        w.violate('output:client-emitted-informational', repr(f))
                    if d['final']:
                        w.violate('output:informational-after-final', repr(f))
                    if f.has(wire.F_END_STREAM):
                        w.violate('output:informational-with-END_STREAM', repr(f))
                elif pseudo:
                    if d['final']:
                        w.violate('output:second-final-header-block', repr(f))
                    d['final'] = True
                else:
                    if not d['final']:
                        w.violate('output:trailers-before-final-headers', repr(f))
                    if d['trailers']:
                        w.violate('output:second-trailers', repr(f))
                    if not f.has(wire.F_END_STREAM):
                        w.violate('output:trailers-without-END_STREAM', repr(f))
                    d['trailers'] = True
                if f.has(wire.F_END_STREAM):
                    d['ended'] = True
            if f.type == wire.DATA:
                d = self.st.get(sid)
                if d is None:
                    # server answering a request it received: no HEADERS emitted yet on this stream
                    d = self.st[sid] = {'final': False, 'trailers': False, 'ended': False, 'promised': False}
                if d['ended']:
                    w.violate('output:data-after-END_STREAM', repr(f))
                if d['trailers']:
                    w.violate('output:data-after-trailers', repr(f))
                if not d['final']:
                    w.violate('data-before-final-headers-accepted', 'output: DATA emitted before final headers')
                if f.has(wire.F_END_STREAM):
                    d['ended'] = True


def run_case(data):
    ch = Chooser(data)
    r = Result()
    client = ch.bool()
    upgrade = ch.chance(32)
    # a quarter of the cases run with outbound header validation switched off: the message rules that rest on
    # stream state (1xx after the final response, 1xx with END_STREAM, a block after the final one without
    # END_STREAM, second trailers, role gates) do not depend on it.  Refusals that rest on the *content* of a
    # header list are not generated there: without validation the library sends what it is given.
    novalidate = ch.chance(64)
    cfg = {'validate_outbound_headers': False} if novalidate else {}
    w = World(client, r, 'C08', upgrade=upgrade, **cfg)
    if novalidate:
        r.labels.add('validate_outbound_headers=False')
    mon = OutMonitor(client)
    r.step('role', 'client' if client else 'server', 'upgraded' if upgrade else '')
    refused_on = {}
    later_emit = False
    forbidden_open = False
    for stepno in range(ch.int(4, 35)):
        if w.stop or any('data-before' not in k for k, _ in r.violations):
            break
        m = w.m
        known = [sid for sid in m.streams if sid not in w.tainted]
        # choose a target
        tk = ch.weighted([(8, 'known'), (3, 'next-local'), (1, 'wrong-parity'), (1, 'skip'), (1, 'low')])
        if tk == 'known' and known:
            sid = ch.pick(sorted(known))
        elif tk == 'wrong-parity':
            sid = w.next_peer_id()
        elif tk == 'skip':
            sid = w.next_local_id() + 2 * ch.int(1, 3)
        elif tk == 'low':
            sid = max(1, w.next_local_id() - 2 * ch.int(1, 3))
            if sid in w.tainted:
                continue
        else:
            sid = w.next_local_id()
        reserved = [x for x in known if m.get(x).state == M.RES_LOCAL]
        if reserved and ch.chance(80):
            # promised streams awaiting their response get their share of calls (alt-svc, data, end, informational
            # and final blocks in every order)
            sid = ch.pick(sorted(reserved))
            r.labels.add('call-on-promised-stream')
        op = ch.weighted([(6, 'headers'), (5, 'data'), (2, 'end'), (2, 'push'), (1, 'prioritize'), (2, 'altsvc'),
                          (1, 'rst'), (4, 'peer-open'), (1, 'peer-push'), (1, 'peer-end'), (2, 'peer-info'),
                          (1, 'bad-priority')])
        o = None
        if op == 'peer-open':
            if client:
                continue
            pid = w.next_peer_id()
            res, o = w.recv_headers(pid, 'final', ch.chance(96))
            o = None
        elif op == 'peer-push':
            cands = [x for x in known if m.get(x).local and m.get(x).state in (M.OPEN, M.HC_LOCAL) and x % 2 == 1]
            if not client or not cands:
                continue
            res, o = w.recv_push(ch.pick(sorted(cands)), w.next_peer_id())
            o = None
        elif op == 'peer-info':
            # an interim response from the server changes nothing about what the client may still send
            cands = [x for x in known if m.get(x).local and x % 2 == 1 and m.get(x).can_recv() and not m.get(x).r_final]
            if not client or not cands:
                continue
            res, o = w.recv_headers(ch.pick(sorted(cands)), 'info', False)
            o = None
            r.labels.add('peer-informational')
        elif op == 'bad-priority':
            # a request refused for its priority arguments (checked before anything else): the stream it would
            # have opened does not exist afterwards
            if not client or m.classify(sid) != 'idle' or m.send_headers_verdict(sid, 'final', False)[0] != M.PERMIT:
                continue
            kw = ch.pick([{'priority_weight': 0}, {'priority_weight': 257}, {'priority_depends_on': sid}])
            o = w.s.call('send_headers', sid, w.final_list(sid, True), **kw)
            r.step('send_headers with invalid priority', sid, kw, o.brief())
            if o.ok:
                w.violate('send:headers:invalid-priority-accepted', repr(kw))
                break
            if o.out:
                w.violate('send:headers:invalid-priority:refused-call-emitted', o.out.hex()[:40])
            r.labels.add('bad-priority')
        elif op == 'peer-end':
            cands = [x for x in known if m.get(x).state in (M.OPEN,) and not m.get(x).local and m.get(x).r_final]
            if not cands:
                continue
            res, o = w.recv_data(ch.pick(sorted(cands)), True)
            o = None
        elif op == 'headers' and ch.chance(20):
            # header text that cannot be encoded: the call raises whatever the stream state; nothing may remain
            # of it (not the stream it would have opened, not the id it would have promised)
            # (only where the same call with encodable text would be permitted: a call that a state machine
            # refuses first is known finding K03, not this)
            as_push = not client and ch.bool()
            if as_push:
                if m.push_verdict(sid, w.next_local_id())[0] != M.PERMIT:
                    continue
                w.send_unencodable(sid, promised=w.next_local_id())
            else:
                if m.send_headers_verdict(sid, 'final', False)[0] != M.PERMIT:
                    continue
                w.send_unencodable(sid)
            r.labels.add('unencodable-header-text')
        elif op == 'headers':
            kind = ch.weighted([(5, 'final'), (2, 'info'), (3, 'trailers')])
            es = ch.bool()
            if m.classify(sid) == 'idle' and (not client or sid % 2 == 0):
                forbidden_open = True
            # (a client never classifies its own blocks as informational: there a ':status: 1xx' list is only
            # caught by validation)
            if novalidate and (m.send_headers_verdict(sid, kind, es)[1] in (
                    'message:not-a-request', 'message:trailers-before-response', 'message:second-final-block')
                    or (client and kind == 'info')):
                r.excluded['content-based-refusal-with-validation-off'] += 1
                continue
            hdrs = None
            if kind == 'info' and ch.bool():
                # the same block as the application may write it: the library normalises name and value
                hdrs = [ch.pick([(':status', ' 100'), (b':status', b'103 '), (' :Status', '100'), (b':STATUS ', b' 102 ')])]
            res, o = w.send_headers(sid, kind, es, hdrs=hdrs)
        elif op == 'data':
            res, o = w.send_data(sid, ch.chance(64), n=ch.int(0, 20), pad=ch.pick([None, None, 0, 5]))
        elif op == 'end':
            res, o = w.end_stream(sid)
        elif op == 'rst':
            res, o = w.reset(sid)
        elif op == 'push':
            promised = ch.weighted([(6, w.next_local_id() if not client else 2), (1, 1), (1, max(2, m.hi_local))])
            if m.classify(sid) == 'idle' or client:
                forbidden_open = forbidden_open or client
            res, o = w.push(sid, promised)
        elif op == 'altsvc':
            if ch.bool():
                res, o = w.altsvc_stream(sid)
            else:
                verdict = M.REFUSE if (client or m.closed) else M.PERMIT
                o = w.s.call('advertise_alternative_service', b'h2=":2"', origin=b'example.com')
                res = w.finish_local('altsvc-origin', None, verdict,
                                     'client-cannot-advertise' if client else 'origin', o, lambda: None)
        elif op == 'prioritize':
            verdict = M.PERMIT if client and not m.closed else M.REFUSE
            o = w.s.call('prioritize', sid, weight=ch.int(1, 256))
            # refused by a role check before any state machine: inert
            res = w.finish_local('prioritize', None, verdict, 'connection-closed' if client else 'too-many-streams',
                                 o, lambda: None)
            if not client and o.ok is False and o.exc_name != 'RFC1122Error':
                w.violate('send:prioritize:server:wrong-exception:%s' % o.exc_name, '')
        if o is not None:
            mon.feed(o.frames, w)
            if not o.ok:
                refused_on[sid] = True
            elif o.frames and refused_on.get(sid):
                later_emit = True
    if w.s.out_problems:
        w.violate('malformed-output', repr(w.s.out_problems))
    r.nontrivial = later_emit or forbidden_open
    if later_emit:
        r.labels.add('emit-after-refusal-on-same-stream')
    if forbidden_open:
        r.labels.add('forbidden-open-attempt')
    return r


def _k04():
    s = Solo(False)
    s.start()
    s.feed(wire.headers(1, s.hblock(REQ)))
    o = s.call('send_data', 1, b'x')
    return ['C08:data-before-final-headers-accepted'] if o.ok else []


def _f22():
    s = Solo(False)
    s.start()
    s.feed(wire.headers(1, s.hblock(REQ)))
    o = s.call('send_headers', 2, RESP)
    return ['C08:send:headers:final:server:idle:refused-by-rfc-but-accepted'] if o.ok else []


def _f24():
    keys = []
    s = Solo(True)
    s.start()
    o = s.call('send_headers', 1, [(b'x-not-a-request', b'1')])      # refused: no pseudo-headers
    o2 = s.call('send_data', 1, b'x')
    if o.ok or o2.ok:
        keys.append('C08:send:data:client:idle:refused-by-rfc-but-accepted:no-such-stream')
    o3 = s.call('get_next_available_stream_id')
    if o3.value != 1:
        keys.append('C08:stream-id-used-up-by-refused-call')
    return keys


def _f25():
    s = Solo(True)
    s.start()
    o = s.call('advertise_alternative_service', b'h2=":1"', origin=b'example.com')
    return ['C08:output:client-emitted-ALTSVC'] if o.ok else []


FINDINGS = {'K04-data-before-response-headers': _k04, 'F22-server-opens-stream-with-headers': _f22,
            'F24-refused-header-block-leaves-stream-open': _f24, 'F25-client-advertises-altsvc': _f25}
