"""C09 Stream identifiers are allocated and checked per RFC 7540 section 5.1.1."""
from .. import wire, model as M
from ..choose import Chooser
from ..runner import Result
from ..prog import World
from ..solo import Solo, REQ, RESP

ID = 'C09'
LEVEL = 'exploration'
ENGINE = 'E2 solo'
TECHNIQUE = ('property-based testing: generated interleavings of local and peer stream openings / promises with '
             'user-chosen ids vs. watermark reference model; metamorphic check that PRIORITY frames change no verdict')
RULE = ('cases: histories (6..40 steps) of locally opened ids (in order, skipping, out of order, wrong parity, near, at '
        'and above 2^31-1), promised ids, peer-opened ids and peer PUSH_PROMISE ids (same variety up to 2^31-1), '
        'stream closings (END_STREAM both ways, resets from either side, clean-up), get_next_available_stream_id '
        'queries, acknowledged changes of the local MAX_CONCURRENT_STREAMS (0, 1, 2, 100) and PRIORITY frames on arbitrary ids; the same history is replayed without its PRIORITY frames and '
        'must give identical reactions; non-trivial = >= 3 opens on each side (or 5 on one) and at least one '
        'rejected id; distinct by trace')
ASSUMPTIONS = ['K03: streams hit by a state-machine refusal are not used again']
TIERS = {'quick': {'cases': 6000, 'size': 300},
         'thorough': {'cases': 1200000, 'size': 400}}
TOP = 2**31 - 1


def pick_id(ch, nxt, hi, parity):
    """An id for the side whose next free id is ``nxt``; parity 1 = odd."""
    k = ch.weighted([(8, 'next'), (3, 'skip'), (2, 'low-unused'), (2, 'used'), (2, 'wrong-parity'), (1, 'top'),
                     (1, 'near-top'), (1, 'above-top')])
    if k == 'next':
        return nxt
    if k == 'skip':
        return nxt + 2 * ch.int(1, 5)
    if k == 'low-unused':
        return max(parity or 2, nxt - 2 * ch.int(1, 4))
    if k == 'used':
        return max(parity or 2, hi - 2 * ch.int(0, 3)) if hi else nxt
    if k == 'wrong-parity':
        return nxt + 1
    if k == 'top':
        return TOP if parity else TOP - 1
    if k == 'near-top':
        return (TOP if parity else TOP - 1) - 2 * ch.int(1, 3)
    return (TOP if parity else TOP - 1) + 2 * ch.int(1, 3)


BAD_REQ = [(b':method', b'GET'), (b':scheme', b'https'), (b':authority', b'example.com'), (b'x-no-path', b'1')]


def apply_op(w, op, r):
    """Execute one op on world ``w``; returns its reaction summary (None for PRIORITY frames)."""
    kind = op[0]
    o = None
    res = 'ok'
    if kind == 'prio':
        w.recv_priority(op[1], op[2], op[3], op[4])
        return None
    if kind == 'open-local':
        cls_before = w.m.classify(op[1])
        res, o = w.send_headers(op[1], 'final', op[2])
        if o.ok and cls_before != 'known':
            hf = [f for f in o.frames if f.type == wire.HEADERS]
            if len(hf) != 1 or hf[0].stream_id != op[1]:
                w.violate('opened-id-differs-on-the-wire', 'asked %d, emitted %r' % (op[1], o.frames))
            if op[1] > TOP:
                w.violate('opened-id-above-2^31-1', str(op[1]))
    elif kind == 'push':
        res, o = w.push(op[1], op[2])
        if o.ok:
            pf = [f for f in o.frames if f.type == wire.PUSH_PROMISE]
            if len(pf) != 1 or pf[0].f.get('promised') != op[2]:
                w.violate('promised-id-differs-on-the-wire', 'asked %d, emitted %r' % (op[2], o.frames))
            if op[2] > TOP:
                w.violate('promised-id-above-2^31-1', str(op[2]))
    elif kind in ('open-local-bad', 'push-bad'):
        # an open / a promise that is refused because of its header list (a list validation refuses, or text
        # that cannot be encoded; either is noticed after the stream object exists): the id was never used, every
        # watermark stays where it was
        bad = BAD_REQ if op[3] == 'invalid' else list(REQ) + [('x-bad-text', 'v\udcff')]
        if op[3] == 'bad-parent':
            # a valid list, promised on a parent that is closed and forgotten, or was never opened
            bad = list(REQ)
            w.s.c.open_inbound_streams
            w.s.c.open_outbound_streams
        if kind == 'open-local-bad':
            o = w.s.call('send_headers', op[1], bad, end_stream=op[2])
        else:
            o = w.s.call('push_stream', op[1], op[2], bad)
        r.step(kind, op[1], op[2], op[3], o.brief())
        r.labels.add('refused-open:' + op[3])
        res = 'refused'
        if o.ok:
            w.violate('invalid-header-list-accepted:%s' % kind, repr(o.frames)[:120])
            w.stop = True
        elif o.out:
            w.violate('refused-open-emitted:%s' % kind, o.out.hex()[:60])
    elif kind == 'open-peer':
        res, o = w.recv_headers(op[1], 'final', op[2])
    elif kind == 'peer-push':
        res, o = w.recv_push(op[1], op[2])
    elif kind == 'local-end':
        res, o = w.end_stream(op[1]) if op[2] == 'end' else w.reset(op[1])
    elif kind == 'peer-end':
        if op[2] == 'end':
            res, o = w.recv_data(op[1], True)
        else:
            res, o = w.recv_rst(op[1])
    elif kind == 'respond':
        res, o = w.send_headers(op[1], 'final', op[2])
    elif kind == 'limit':
        # our MAX_CONCURRENT_STREAMS changes and the peer acknowledges at once: HEADERS on ids that are not new
        # (closed, reset, forgotten) are judged by what happened to the id, never by the limit
        o1 = w.s.call('update_settings', {wire.S_MAX_CONCURRENT_STREAMS: op[1]})
        o2 = w.s.feed(wire.settings(ack=True)) if o1.ok else o1
        r.step('local MAX_CONCURRENT_STREAMS', op[1], o1.brief(), 'acknowledged', o2.brief())
        if not o1.ok or not o2.ok:
            w.violate('harness:stream-limit-change-failed', '%s %s' % (o1.brief(), o2.brief()))
            w.stop = True
        else:
            w.m.local_max_streams = op[1]
            r.labels.add('local-stream-limit-%s' % ('low' if op[1] < 3 else 'default'))
    elif kind == 'cleanup':
        w.s.c.open_inbound_streams
        w.s.c.open_outbound_streams
    elif kind == 'query':
        o = w.s.call('get_next_available_stream_id')
        want = w.next_local_id()
        if want > TOP:
            if o.ok or o.exc_name != 'NoAvailableStreamIDError':
                w.violate('next-id:exhausted-but-%s' % o.brief(), 'model next %d' % want)
        elif not o.ok or o.value != want:
            w.violate('next-id-not-smallest-free', 'library %r model %d' % (o.value if o.ok else o.exc, want))
        r.step('get_next_available_stream_id', o.value if o.ok else o.brief(), 'model', want)
    return (kind, res, o.brief() if o is not None else None,
            [e[0] for e in o.events] if o is not None else None,
            bytes(o.out) if o is not None else None)


def execute(client, ops, skip_prio, r):
    """Run the op list on a fresh world; returns (world, [reaction summary per non-PRIORITY op])."""
    w = World(client, r, 'C09')
    out = []
    for op in ops:
        if w.stop:
            break
        if op[0] == 'prio' and skip_prio:
            continue
        summ = apply_op(w, op, r)
        if summ is not None:
            out.append(summ)
    return w, out


def run_case(data):
    ch = Chooser(data)
    r = Result()
    client = ch.bool()
    ops = []
    # generation pass: a World is advanced while ops are drawn
    w = World(client, r, 'C09')
    local_opens = peer_opens = rejected = 0
    first = []
    r.step('role', 'client' if client else 'server')
    for stepno in range(ch.int(6, 40)):
        if w.stop or r.violations:
            break
        m = w.m
        usable = sorted(s for s in m.streams if s not in w.tainted)
        kind = ch.weighted([(6, 'open-local' if client else 'push'), (6, 'open-peer' if not client else 'peer-push'),
                            (3, 'local-end'), (3, 'peer-end'), (2, 'respond'), (4, 'prio'), (2, 'query'),
                            (1, 'cleanup'), (2, 'open-local-bad' if client else 'push-bad'), (1, 'limit')] +
                           ([(4, 'peer-headers-on-promised')] if client else []) + [(2 if client else 1, 'peer-headers-on-own')])
        op = None
        if kind == 'open-local':
            sid = pick_id(ch, w.next_local_id(), m.hi_local, 1)
            if sid in w.tainted:
                continue
            op = (kind, sid, ch.chance(64))
        elif kind == 'open-local-bad':
            sid = w.next_local_id()
            if sid > TOP or m.send_headers_verdict(sid, 'final', False)[0] != M.PERMIT:
                continue
            op = (kind, sid, ch.chance(64), ch.pick(['invalid', 'unencodable']))
        elif kind == 'push-bad':
            parents = [s for s in usable if s % 2 == 1 and m.get(s).state in (M.OPEN, M.HC_REMOTE)]
            if not parents:
                continue
            par = ch.pick(parents)
            if w.next_local_id() > TOP or m.push_verdict(par, w.next_local_id())[0] != M.PERMIT:
                continue
            how = ch.pick(['invalid', 'unencodable', 'bad-parent'])
            if how == 'bad-parent':
                gone = [s for s in m.streams if s % 2 == 1 and m.get(s).state == M.CLOSED]
                par = ch.pick(sorted(gone) + [w.next_peer_id()])
            op = (kind, par, w.next_local_id(), how)
        elif kind == 'push':
            parents = [s for s in usable if s % 2 == 1 and m.get(s).state in (M.OPEN, M.HC_REMOTE)]
            if not parents:
                continue
            op = (kind, ch.pick(parents), pick_id(ch, w.next_local_id(), m.hi_local, 0))
        elif kind == 'open-peer':
            sid = pick_id(ch, w.next_peer_id(), m.hi_peer, 1)
            if sid > TOP or sid in w.tainted:
                continue
            op = (kind, sid, ch.chance(64))
        elif kind == 'peer-headers-on-promised':
            # HEADERS from the server on an even id: the response on a promised stream, or a late / repeated
            # block on one that is closed (by reset, or normally) or was never promised
            sid = pick_id(ch, w.next_peer_id(), m.hi_peer, 0)
            if sid > TOP or sid in w.tainted:
                continue
            op = ('open-peer', sid, ch.chance(128))
        elif kind == 'peer-headers-on-own':
            # HEADERS from the peer on an id of our parity: the answer on a stream we opened, a late or repeated
            # block on one that is closed, reset or forgotten, or an id we never used
            own = [s for s in usable if m.is_local_id(s)]
            if own and ch.chance(224):
                sid = ch.pick(own)
            else:
                sid = pick_id(ch, w.next_local_id(), m.hi_local, 1 if client else 0)
            if sid > TOP or sid in w.tainted:
                continue
            op = ('open-peer', sid, ch.chance(128))
        elif kind == 'peer-push':
            parents = [s for s in usable if s % 2 == 1 and (m.get(s).state in (M.OPEN, M.HC_LOCAL) or
                                                            (m.get(s).state == M.CLOSED and
                                                             m.get(s).closed_by == 'send-rst'))]
            if not parents:
                continue
            pid = pick_id(ch, w.next_peer_id(), m.hi_peer, 0)
            if pid > TOP:
                continue
            op = (kind, ch.pick(parents), pid)
        elif kind == 'local-end':
            cands = [s for s in usable if m.get(s).can_send() and (m.get(s).s_final or ch.bool())]
            if not cands:
                continue
            sid = ch.pick(cands)
            how = ch.pick(['end', 'rst'])
            if how == 'end' and not m.get(sid).s_final:
                how = 'rst'
            op = (kind, sid, how)
        elif kind == 'peer-end':
            cands = [s for s in usable if m.get(s).can_recv()]
            if not cands:
                continue
            sid = ch.pick(cands)
            how = ch.pick(['end', 'rst'])
            if how == 'end' and not m.get(sid).r_final:
                how = 'rst'
            op = (kind, sid, how)
        elif kind == 'respond':
            cands = [s for s in usable if m.headers_position(m.get(s)) == 'response']
            if not cands:
                continue
            op = (kind, ch.pick(cands), ch.chance(128))
        elif kind == 'prio':
            sid = ch.pick([1, 2, 3, 5, 99, 100, w.next_peer_id(), w.next_local_id(), w.next_peer_id() + 4,
                           m.hi_peer or 1, TOP, TOP - 1, ch.int(1, TOP)])
            sid = min(sid, TOP)
            dep = ch.pick([0, 1, 2, 7, w.next_peer_id()])
            if dep == sid or dep > TOP:
                dep = 0
            op = (kind, sid, dep, ch.int(1, 256), ch.bool())
        elif kind == 'query':
            op = (kind,)
        elif kind == 'limit':
            op = (kind, ch.pick([0, 1, 2, 100]))
        else:
            op = (kind,)
        nrej = w.rejected
        summ = apply_op(w, op, r)
        if summ is not None:
            first.append(summ)
        ops.append(op)
        if kind in ('open-local', 'push'):
            local_opens += 1
        if kind in ('open-peer', 'peer-push', 'peer-headers-on-promised', 'peer-headers-on-own'):
            peer_opens += 1
        if w.rejected > nrej and kind in ('open-local', 'push', 'open-peer', 'peer-push', 'peer-headers-on-promised',
                                          'peer-headers-on-own'):
            rejected += 1
    # metamorphic replay without the PRIORITY frames
    if not r.violations and any(op[0] == 'prio' for op in ops):
        r2 = Result()
        w2, second = execute(client, ops, True, r2)
        r.evals += 1
        a = [x for x in first]
        if a != second:
            i = next((i for i, (x, y) in enumerate(zip(a, second)) if x != y), min(len(a), len(second)))
            r.violate('C09:priority-frames-changed-a-verdict', 'step %d: with PRIORITY %r, without %r' %
                      (i, a[i] if i < len(a) else None, second[i] if i < len(second) else None))
        r.labels.add('metamorphic-priority-replay')
    if w.s.out_problems:
        w.violate('malformed-output', repr(w.s.out_problems))
    r.nontrivial = rejected >= 1 and ((local_opens >= 3 and peer_opens >= 3) or local_opens + peer_opens >= 5)
    if rejected:
        r.labels.add('rejected-id')
    return r




def _f26():
    keys = []
    s = Solo(True)
    s.start()
    o = s.call('send_headers', 2**31 + 1, REQ)
    if o.ok:
        keys.append('C09:opened-id-above-2^31-1')
    s = Solo(False)
    s.start()
    s.feed(wire.headers(1, s.hblock(REQ)))
    o = s.call('push_stream', 1, 2**31, REQ)
    if o.ok:
        keys.append('C09:promised-id-above-2^31-1')
    return keys


FINDINGS = {'F26-stream-ids-above-2^31-1-accepted': _f26}
