"""C27 Peer-controlled retained state stays bounded."""
from hpack import Encoder

from .. import wire
from ..choose import Chooser
from ..runner import Result
from ..drive import h2, Endpoint
from ..hpackmirror import raw_block

ID = 'C27'
LEVEL = 'exploration'
ENGINE = 'E2 solo'
TECHNIQUE = ('property-based long-history testing: generated adversarial frame floods with periodic read-only size '
             'probes of the retained tables and limit checks at the CONTINUATION / header-list-size boundaries')
RULE = ('cases: one long run per case (quick 12 000 frames, thorough 300 000), composed of drawn flood phases: '
        'PRIORITY / WINDOW_UPDATE / RST_STREAM / unknown frame types on idle and closed ids, open-close churn with '
        'END_STREAM and resets from both sides, push-and-reset floods towards a client, header blocks with '
        'CONTINUATION counts 60..66 and decoded sizes within a few bytes of an acknowledged MAX_HEADER_LIST_SIZE of 0, 1, 300, 2000 or 15000; probes after every '
        'phase: len(streams) - live streams of the model, len(_closed_streams) <= MAX_CLOSED_STREAMS, empty input '
        'buffer, header buffer <= 64; the quick tier runs with the documented class constant MAX_CLOSED_STREAMS '
        'lowered to 64 in a subclass so the cap is exercised; evaluations count frames delivered; non-trivial = more '
        'than MAX_CLOSED_STREAMS + 1000 streams were closed, or a limit was approached within one unit; distinct by trace')
ASSUMPTIONS = ['retained state is measured by table sizes (two private tables are read with len() only), not bytes']
TIERS = {'quick': {'cases': 96, 'size': 64, 'frames': 12000, 'cap': 64},
         'thorough': {'cases': 64, 'size': 64, 'frames': 300000, 'cap': None}}
REQ = [(b':method', b'GET'), (b':scheme', b'https'), (b':authority', b'example.com'), (b':path', b'/')]
RESP = [(b':status', b'200')]
_TIER = {'name': 'quick'}


def configure(known):
    import os
    _TIER['name'] = os.environ.get('VERIF_TIER') or _TIER['name']


class Cycler(Chooser):
    """A chooser that wraps around: long runs are a deterministic function of a short case."""

    def u8(self):
        if not self.n:
            return 0
        v = self.d[self.i % self.n]
        self.i += 1
        return v


def make_conn(client, cap, default_hls=None):
    cls = h2.connection.H2Connection
    attrs = {}
    if cap is not None:
        attrs['MAX_CLOSED_STREAMS'] = cap
    if default_hls is not None:
        attrs['DEFAULT_MAX_HEADER_LIST_SIZE'] = default_hls      # the other documented class constant
    if attrs:
        cls = type('SmallMemoryConnection', (cls,), attrs)
    return cls(h2.config.H2Configuration(client_side=client))


def run_case(data):
    import sys
    tier = TIERS['thorough' if '--tier' in sys.argv and 'thorough' in sys.argv else _TIER['name']] \
        if _TIER['name'] in TIERS else TIERS['quick']
    ch = Cycler(data)
    r = Result()
    client = ch.bool()
    cap = tier['cap']
    default_hls = ch.pick([None, None, None, 1024])
    c = make_conn(client, cap, default_hls)
    ep = Endpoint(client, conn=c)
    enc = Encoder()
    ep.call('initiate_connection')
    ep.recv((b'' if client else wire.PREFACE) + wire.settings() + wire.settings(ack=True))
    limit = c.MAX_CLOSED_STREAMS
    stream_limit = ch.pick([None, None, 2**31 - 1, 5000])
    if stream_limit:
        # an application that does not want to limit its peer: the tables must stay bounded all the same
        ep.call('update_settings', {wire.S_MAX_CONCURRENT_STREAMS: stream_limit})
        ep.recv(wire.settings(ack=True))
        r.labels.add('local-stream-limit-raised')
    budget = tier['frames']
    delivered = 0
    closed_total = 0
    live = set()              # model: streams that are not closed
    next_peer = 2 if client else 1
    next_local = 1 if client else 2
    near_limit = False
    dead = False
    r.step('role', 'client' if client else 'server', 'MAX_CLOSED_STREAMS', limit, 'frames', budget)

    def feed(buf, nframes, what):
        nonlocal delivered, dead
        o = ep.recv(buf)
        delivered += nframes
        if not o.ok:
            dead = True
            if not o.is_protocol_error():
                r.violate('C27:non-protocol-exception:%s' % o.exc_name, what)
        return o

    def probe(where):
        n_streams = len(c.streams)
        excess = n_streams - len(live)
        if excess > 2 * 100 + 16:
            r.violate('C27:stream-table-grows-without-bound:%s' % where.split(':')[0],
                      '%d entries for %d live streams' % (n_streams, len(live)))
        if len(c._closed_streams) > limit:
            r.violate('C27:closed-stream-memory-exceeds-cap', '%d > %d' % (len(c._closed_streams), limit))
        if len(c.incoming_buffer.data):
            r.violate('C27:input-buffer-retains-complete-frames', str(len(c.incoming_buffer.data)))
        if len(c.incoming_buffer._headers_buffer) > 64:
            r.violate('C27:header-buffer-exceeds-continuation-limit', str(len(c.incoming_buffer._headers_buffer)))

    # one long-lived stream with the lowest id of its kind: when the application finally cancels it, it is the
    # most recently closed stream and must be remembered as such, however many streams closed before it
    def open_old():
        nonlocal next_local, next_peer
        if client:
            sid = next_local
            next_local += 2
            if not ep.call('send_headers', sid, REQ).ok:
                return None
        else:
            sid = next_peer
            next_peer += 2
            if not ep.recv(wire.headers(sid, enc.encode(REQ))).ok:
                return None
        live.add(sid)
        return sid
    old_sid = open_old()

    connections = 1
    max_closed = 0
    hls_touched = False
    while delivered < budget and not r.violations:
        if dead:
            # the previous connection ended with an (expected) connection error: carry on with a fresh one
            max_closed = max(max_closed, closed_total)
            c = make_conn(client, cap, default_hls)
            ep = Endpoint(client, conn=c)
            enc = Encoder()
            ep.call('initiate_connection')
            ep.recv((b'' if client else wire.PREFACE) + wire.settings() + wire.settings(ack=True))
            if stream_limit:
                ep.call('update_settings', {wire.S_MAX_CONCURRENT_STREAMS: stream_limit})
                ep.recv(wire.settings(ack=True))
            live = set()
            next_peer = 2 if client else 1
            next_local = 1 if client else 2
            closed_total = 0
            dead = False
            connections += 1
            delivered += 2
            hls_touched = False
            old_sid = open_old()
        phase = ch.weighted([(3, 'noise-idle'), (3, 'noise-closed'), (6, 'churn'), (4, 'push-flood'), (2, 'continuation'),
                             (2, 'header-list-size'), (1, 'unknown'), (2, 'cancel-old-stream')])
        if phase == 'cancel-old-stream':
            delivered += 1
            if old_sid is None or closed_total <= limit + 10:
                continue
            # cancelled by the application only now; the frames the peer still has in flight for it are the
            # ordinary "frames racing a reset", not a connection error
            ep.call('reset_stream', old_sid)
            live.discard(old_sid)
            _ = c.open_inbound_streams, c.open_outbound_streams
            o = feed(wire.headers(old_sid, enc.encode(RESP if client else [(b'x-t', b'1')]), end_stream=True) +
                     wire.data(old_sid, b'late'), 2, 'cancel-old-stream')
            r.step('late frames on the long-lived stream after', closed_total, 'closed streams', o.brief())
            if not o.ok:
                r.violate('C27:most-recently-closed-stream-forgotten:%s' % o.exc_name, 'stream %d after %d closed streams'
                          % (old_sid, closed_total))
            old_sid = None
            closed_total += 1
            near_limit = True
            r.labels.add('cancel-old-stream')
            if not dead:
                probe(phase)
            continue
        n = ch.pick([50, 200, 1000, 3000])
        r.step('phase', phase, n)
        before = len(c.streams)
        before_closed = len(c._closed_streams)
        if phase in ('noise-idle', 'noise-closed', 'unknown'):
            buf = b''
            k = 0
            for i in range(n):
                if phase == 'noise-idle':
                    sid = (next_peer if ch.bool() else next_local) + 2 * ch.int(1, 10000)
                else:
                    top = (next_peer if ch.bool() else next_local) - 2
                    if top < 1:
                        continue
                    sid = top - 2 * ch.int(0, (top - 1) // 2)
                    if sid in live or sid < 1:
                        continue
                kind = ch.int(0, 3) if phase != 'unknown' else 4
                if kind == 0:
                    dep = 0 if sid != 1 else 3
                    buf += wire.priority(sid, dep, ch.int(1, 256))
                elif kind == 1 and phase == 'noise-closed':
                    buf += wire.window_update(sid, 1)
                elif kind == 2:
                    # (RST_STREAM on an idle stream is ignored by this library - a documented leniency - or a
                    # connection error; either way it leaves nothing behind)
                    buf += wire.rst_stream(sid, 8)
                elif kind == 4:
                    buf += wire.raw(ch.int(0x0b, 0xff), ch.u8(), sid, ch.bytes(ch.int(0, 8)))
                else:
                    buf += wire.priority(sid, 0, 1)
                k += 1
                if len(buf) > 30000:
                    feed(buf, k, phase)
                    buf, k = b'', 0
                    if dead:
                        break
            if buf and not dead:
                feed(buf, k, phase)
            delivered += 1
            if not dead and len(c.streams) != before:
                r.violate('C27:non-opening-frames-allocated-stream-state:%s' % phase,
                          '%d -> %d' % (before, len(c.streams)))
            if not dead and len(c._closed_streams) > before_closed:
                r.violate('C27:non-opening-frames-grew-closed-stream-memory:%s' % phase,
                          '%d -> %d' % (before_closed, len(c._closed_streams)))
        elif phase == 'churn':
            for i in range(n // 2):
                if dead:
                    break
                if client:
                    sid = next_local
                    next_local += 2
                    o = ep.call('send_headers', sid, REQ, end_stream=True)
                    if not o.ok:
                        dead = True
                        r.violate('C27:harness:open-refused', repr(o.exc))
                        break
                    live.add(sid)
                    how = ch.int(0, 2)
                    if how == 0:
                        feed(wire.headers(sid, enc.encode(RESP), end_stream=True), 1, 'churn')
                    elif how == 1:
                        feed(wire.rst_stream(sid, 2), 1, 'churn')
                    else:
                        ep.call('reset_stream', sid)
                    live.discard(sid)
                else:
                    sid = next_peer
                    next_peer += 2
                    how = ch.int(0, 2)
                    feed(wire.headers(sid, enc.encode(REQ), end_stream=(how == 0)), 1, 'churn')
                    live.add(sid)
                    if dead:
                        break
                    if how == 0:
                        ep.call('send_headers', sid, RESP, end_stream=True)
                    elif how == 1:
                        feed(wire.rst_stream(sid, 8), 1, 'churn')
                    else:
                        ep.call('reset_stream', sid)
                    live.discard(sid)
                closed_total += 1
                delivered += 1      # local calls count as progress too: every case terminates
        elif phase == 'push-flood':
            if not client:
                delivered += 1      # (a degenerate case that only ever draws this phase must still terminate)
                continue
            parent = next_local
            next_local += 2
            o = ep.call('send_headers', parent, REQ)
            if not o.ok:
                dead = True
                r.violate('C27:harness:open-refused', repr(o.exc))
                break
            live.add(parent)
            fixed = ch.pick([None, 0, 1, 2])      # one way of closing for the whole phase, or a mix
            refused_mode = ch.chance(64)
            if refused_mode:
                # the application has cancelled the request: every promise on it is refused (RST_STREAM on the
                # promised id) and must leave nothing behind, however many there are
                ep.call('reset_stream', parent)
                live.discard(parent)
                closed_total += 1
            for i in range(n // 2):
                pid = next_peer
                next_peer += 2
                how = ch.int(0, 2) if fixed is None else fixed
                feed(wire.push_promise(parent, pid, enc.encode(REQ)), 1, 'push-flood')
                if dead:
                    break
                if refused_mode:
                    continue
                live.add(pid)
                if how == 0:
                    feed(wire.rst_stream(pid, 8), 1, 'push-flood')
                elif how == 1:
                    ep.call('reset_stream', pid)
                else:
                    feed(wire.headers(pid, enc.encode(RESP), end_stream=True), 1, 'push-flood')
                live.discard(pid)
                closed_total += 1
            if not dead and not refused_mode and ch.bool():
                ep.call('reset_stream', parent)
                live.discard(parent)
        elif phase == 'continuation':
            count = ch.pick([60, 62, 63, 64, 65, 66])
            near_limit = near_limit or count in (63, 64, 65)
            if client:
                sid = next_local
                next_local += 2
                ep.call('send_headers', sid, REQ)
                blk = enc.encode(RESP)
            else:
                sid = next_peer
                next_peer += 2
                blk = enc.encode(REQ)
            # ``count`` frames in the block: HEADERS + (count - 1) CONTINUATIONs
            buf = wire.headers(sid, blk, end_headers=False)
            for i in range(count - 2):
                buf += wire.continuation(sid, b'', end_headers=False)
            buf += wire.continuation(sid, b'', end_headers=True)
            o = feed(buf, count, 'continuation')
            r.step('continuation frames in block', count, o.brief())
            if count <= 64:
                if not o.ok:
                    r.violate('C27:header-block-within-continuation-limit-refused:%d' % count, o.brief())
                live.add(sid)
            else:
                if o.ok:
                    r.violate('C27:header-block-beyond-continuation-limit-accepted:%d' % count, '')
                elif o.code != wire.PROTOCOL_ERROR and o.code != wire.ENHANCE_YOUR_CALM:
                    r.violate('C27:continuation-limit-wrong-code:%s' % o.code, '')
        elif phase == 'header-list-size':
            # acknowledged MAX_HEADER_LIST_SIZE lowered to 2000, then a list within a few bytes of it
            hls = ch.pick([2000, 2000, 300, 0, 1, 15000])
            if default_hls is not None and ch.bool():
                # the limit announced in the initial SETTINGS frame (class constant), not changed since
                hls = None
            # (announced alone, or together with other settings in the same SETTINGS frame)
            second_pending = False
            ack_with_block = False
            if hls is None:
                hls = default_hls
                if hls_touched:
                    continue
            else:
                hls_touched = True
                new = {wire.S_MAX_HEADER_LIST_SIZE: hls}
                if ch.chance(100):
                    new[wire.S_INITIAL_WINDOW_SIZE] = ch.pick([65535, 70000])
                if ch.chance(60):
                    new[wire.S_MAX_FRAME_SIZE] = 16384
                o = ep.call('update_settings', new)
                if ch.chance(64):
                    # a second change is already on its way when the first is acknowledged: it does not count yet
                    ep.call('update_settings', {wire.S_MAX_HEADER_LIST_SIZE: 60000})
                    second_pending = True
                # the acknowledgement arrives on its own, or in the same receive_data call as the block it governs
                ack_with_block = ch.bool()
                if not ack_with_block:
                    feed(wire.settings(ack=True), 1, 'header-list-size')
                if dead:
                    break
            base = RESP if client else REQ
            base_size = sum(len(k) + len(v) + 32 for k, v in base)
            delta = ch.pick([-2, -1, 0, 1, 2, 40])
            target = hls + delta
            fill = target - base_size - 32 - len(b'x-fill')
            if fill >= 0:
                fields = base + [(b'x-fill', b'v' * fill)]
            else:
                # the limit is smaller than any list that could open the stream: the bare list is already too big
                fields = list(base)
                target = base_size
            near_limit = near_limit or abs(delta) <= 1
            if client:
                sid = next_local
                next_local += 2
                ep.call('send_headers', sid, REQ)
            else:
                sid = next_peer
                next_peer += 2
            o = feed((wire.settings(ack=True) if ack_with_block else b'') + wire.headers(sid, raw_block(fields)),
                     2 if ack_with_block else 1, 'header-list-size')
            r.step('header list size', target, 'limit', hls, 'acknowledged in the same call' if ack_with_block else '',
                   o.brief())
            if target <= hls:
                if not o.ok:
                    r.violate('C27:header-list-within-limit-refused:delta=%d' % delta, o.brief())
                live.add(sid)
            else:
                if o.ok:
                    r.violate('C27:header-list-beyond-limit-accepted:delta=%d' % delta, '')
                elif o.code != wire.ENHANCE_YOUR_CALM:
                    r.violate('C27:oversized-header-list-wrong-code:%s' % o.code, '')
            if not dead and second_pending:
                back = ch.bool()
                if back:
                    # before the second change (60000) is acknowledged the application goes back to the value in
                    # force: three SETTINGS frames, three acknowledgements, and the last one counts
                    ep.call('update_settings', {wire.S_MAX_HEADER_LIST_SIZE: hls})
                feed(wire.settings(ack=True), 1, 'header-list-size')
                if back and not dead:
                    feed(wire.settings(ack=True), 1, 'header-list-size')
                    fill2 = hls + 40 - base_size - 32 - len(b'x-fill')
                    if not dead and fill2 >= 0:
                        sid2 = next_local if client else next_peer
                        if client:
                            next_local += 2
                            ep.call('send_headers', sid2, REQ)
                        else:
                            next_peer += 2
                        o = feed(wire.headers(sid2, raw_block(base + [(b'x-fill', b'v' * fill2)])), 1,
                                 'header-list-size')
                        r.step('header list of', hls + 40, 'after going back to the limit', hls, o.brief())
                        if o.ok:
                            r.violate('C27:header-list-beyond-limit-accepted:after-going-back', '')
                        elif o.code != wire.ENHANCE_YOUR_CALM:
                            r.violate('C27:oversized-header-list-wrong-code:%s' % o.code, '')
            if not dead and hls_touched:
                ep.call('update_settings', {wire.S_MAX_HEADER_LIST_SIZE: 65536})
                feed(wire.settings(ack=True), 1, 'header-list-size')
        if not dead:
            probe(phase)
        # keep the number of live streams below the concurrency limit
        if len(live) > 60 and not dead:
            for sid in [x for x in sorted(live) if x != old_sid][:40]:
                ep.call('reset_stream', sid)
                live.discard(sid)
                closed_total += 1
    closed_total = max(max_closed, closed_total)
    r.evals = max(1, delivered)
    r.nontrivial = closed_total > limit + 1000 or near_limit
    if closed_total > limit + 1000:
        r.labels.add('closed-more-than-cap+1000')
    if near_limit:
        r.labels.add('limit-approached-within-one')
    r.step('delivered', delivered, 'connections', connections, 'most streams closed on one connection', closed_total)
    return r


def _f29():
    ep = Endpoint(True)
    enc = Encoder()
    ep.call('initiate_connection')
    ep.recv(wire.settings() + wire.settings(ack=True))
    ep.call('send_headers', 1, REQ)
    for i in range(400):
        ep.recv(wire.push_promise(1, 2 + 2 * i, enc.encode(REQ)) + wire.rst_stream(2 + 2 * i, 8))
    return ['C27:stream-table-grows-without-bound:push-flood'] if len(ep.c.streams) > 216 else []


FINDINGS = {'F29-push-and-reset-flood-retained': _f29}
