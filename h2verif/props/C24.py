"""C24 Alternative-service advertisements follow the RFC 7838 rules."""
from .. import wire, model as M
from ..choose import Chooser
from ..runner import Result
from ..prog import World
from ..solo import Solo, REQ, RESP

ID = 'C24'
LEVEL = 'exploration'
ENGINE = 'E2 solo'
TECHNIQUE = ('property-based testing: generated advertise_alternative_service calls and ALTSVC frames at every stream '
             'state and message progress vs. the RFC 7838 rules in the reference model')
RULE = ('cases: histories (4..30 steps) on both roles: advertise_alternative_service with origin / stream / both / '
        'neither (and non-bytes field values) on streams in every state and message progress; ALTSVC frames towards '
        'clients and servers on stream 0 or bound to a stream (own request streams before and after response headers, '
        'pushed, closed, unknown streams), with empty, present or conflicting origin; non-trivial = an advertisement '
        'attempted or received in a state other than "request open, no response yet"; distinct by trace')
ASSUMPTIONS = ['requests carry an :authority pseudo-header (the origin a stream-bound advertisement refers to)']
TIERS = {'quick': {'cases': 4000, 'size': 300},
         'thorough': {'cases': 1200000, 'size': 400}}


def req_for(n):
    return [(b':method', b'GET'), (b':scheme', b'https'), (b':authority', b'host%d.example' % n), (b':path', b'/')]


def run_case(data):
    ch = Chooser(data)
    r = Result()
    client = ch.bool()
    # one case in four: a client that has switched outbound normalisation off and builds every request in one list
    # object that it keeps editing (what was sent is what counts, not what the list says later)
    recycled = [] if client and ch.chance(64) else None
    w = World(client, r, 'C24', **({'normalize_outbound_headers': False} if recycled is not None else {}))
    if recycled is not None:
        r.labels.add('recycled-request-list-without-normalisation')
    m = w.m
    authority = {}
    odd_state = False
    r.step('role', 'client' if client else 'server')
    for stepno in range(ch.int(4, 30)):
        if w.stop or r.violations:
            break
        usable = sorted(s for s in m.streams if s not in w.tainted)
        op = ch.weighted([(5, 'open'), (3, 'respond'), (2, 'data'), (2, 'end'), (2, 'rst'), (2, 'push'),
                          (8, 'advertise'), (8, 'recv-altsvc'), (1, 'cleanup'), (2, 'trailers'), (2, 'bad-trailers')])
        if op == 'open':
            if client:
                sid = w.next_local_id()
                hdrs = req_for(sid)
                if recycled is not None:
                    recycled[:] = hdrs
                    hdrs = recycled
                elif ch.chance(80):
                    # the request as the application may write it: the library normalises names and values before
                    # it sends them, and remembers the :authority it actually sent
                    host = 'host%d.example' % sid
                    hdrs[2] = ch.pick([(':Authority', host), (b' :authority ', host.encode() + b' '),
                                       (':authority', '\t' + host), (b':AUTHORITY', host.encode())])
                    if ch.bool():
                        hdrs.insert(0, hdrs.pop(2))        # pseudo-header order is free
                    r.labels.add('dressed-authority')
                verdict, what = m.send_headers_verdict(sid, 'final', False)
                es = ch.chance(64)
                o = w.s.call('send_headers', sid, hdrs, end_stream=es)
                res = w.finish_local('headers:final', sid, verdict, what, o,
                                     lambda: m.apply_send_headers(sid, what, es))
                if res == 'ok':
                    authority[sid] = b'host%d.example' % sid
                if recycled is not None:
                    recycled[2] = (b':authority', b'scribbled-over.example')
            else:
                sid = w.next_peer_id()
                res, o = w.recv_headers(sid, 'final', ch.chance(64), hdrs=req_for(sid))
        elif op == 'respond':
            if client:
                cands = [s for s in usable if m.get(s).can_recv() and not m.get(s).r_final and m.get(s).local]
                if cands:
                    w.recv_headers(ch.pick(cands), ch.pick(['final', 'info']), False)
            else:
                cands = [s for s in usable if m.headers_position(m.get(s)) == 'response']
                if cands:
                    w.send_headers(ch.pick(cands), ch.pick(['final', 'info']), False)
        elif op == 'data':
            if client:
                cands = [s for s in usable if m.get(s).can_recv() and m.get(s).r_final]
                if cands:
                    w.recv_data(ch.pick(cands), ch.chance(64))
            else:
                cands = [s for s in usable if m.get(s).can_send() and m.get(s).s_final and not m.get(s).s_trailers]
                if cands:
                    w.send_data(ch.pick(cands), ch.chance(64))
        elif op == 'end':
            cands = [s for s in usable if m.get(s).can_send() and m.get(s).s_final and not m.get(s).s_trailers]
            if cands:
                w.end_stream(ch.pick(cands))
        elif op == 'trailers':
            # sent trailers end our side of the stream; they carry no :authority and change nothing else
            cands = [s for s in usable if m.get(s).can_send() and m.headers_position(m.get(s)) == 'trailers']
            if cands:
                w.send_headers(ch.pick(cands), 'trailers', True)
                r.labels.add('sent-trailers')
        elif op == 'bad-trailers':
            # a trailers block refused for lack of END_STREAM: the call never happened
            cands = [s for s in usable if m.get(s).can_send() and m.headers_position(m.get(s)) == 'trailers']
            if cands:
                w.send_headers(ch.pick(cands), 'trailers', False)
                r.labels.add('refused-trailers')
        elif op == 'rst':
            cands = [s for s in usable if m.get(s).live()]
            if cands:
                if ch.bool():
                    w.reset(ch.pick(cands))
                else:
                    w.recv_rst(ch.pick(cands))
        elif op == 'push':
            if client:
                cands = [s for s in usable if s % 2 == 1 and m.get(s).state in (M.OPEN, M.HC_LOCAL)]
                if cands:
                    pid = w.next_peer_id()
                    res, o = w.recv_push(ch.pick(cands), pid, hdrs=req_for(pid))
                    if res == 'ok' and m.get(pid) is not None:
                        authority[pid] = b'host%d.example' % pid
            else:
                cands = [s for s in usable if s % 2 == 1 and m.get(s).state in (M.OPEN, M.HC_REMOTE)]
                if cands:
                    w.push(ch.pick(cands), w.next_local_id())
        elif op == 'cleanup':
            w.s.c.open_inbound_streams
            w.s.c.open_outbound_streams
        elif op == 'advertise':
            form = ch.weighted([(6, 'stream'), (4, 'origin'), (1, 'both'), (1, 'neither'), (1, 'bad-field')])
            field = b'h2=":%d"' % ch.int(1, 999)
            sid = ch.pick(usable + [w.next_peer_id(), 99]) if usable else ch.pick([1, w.next_peer_id()])
            if form == 'stream':
                st = m.get(sid)
                if not (st is not None and not st.local and st.state in (M.OPEN, M.HC_REMOTE) and not st.s_final):
                    odd_state = True
                res, o = w.altsvc_stream(sid)
                if res == 'ok':
                    fs = [f for f in o.frames if f.type == wire.ALTSVC]
                    if len(o.frames) != 1 or len(fs) != 1 or fs[0].stream_id != sid or fs[0].f.get('origin') != b'':
                        w.violate('advertise:stream-form-wrong-frame', repr(o.frames))
            elif form == 'origin':
                origin = ch.pick([b'example.com', b'https://other.example:8443'])
                verdict = M.REFUSE if (client or m.closed) else M.PERMIT
                o = w.s.call('advertise_alternative_service', field, origin=origin)
                res = w.finish_local('altsvc-origin', None, verdict, 'client-cannot-advertise', o, lambda: None)
                if res == 'ok':
                    fs = [f for f in o.frames if f.type == wire.ALTSVC]
                    if len(o.frames) != 1 or len(fs) != 1 or fs[0].stream_id != 0 or \
                            fs[0].f.get('origin') != origin or fs[0].f.get('field') != field:
                        w.violate('advertise:origin-form-wrong-frame', repr(o.frames))
                if client:
                    odd_state = True
            else:
                if form == 'both':
                    o = w.s.call('advertise_alternative_service', field, origin=ch.pick([b'example.com', b'']),
                                 stream_id=sid)
                elif form == 'neither':
                    o = w.s.call('advertise_alternative_service', field)
                else:
                    o = w.s.call('advertise_alternative_service', 'h2=":1"', origin=b'example.com')
                r.step('advertise', form, o.brief())
                odd_state = True
                if o.ok:
                    w.violate('advertise:%s-accepted' % form, repr(o.frames))
                elif not (o.is_h2error() or isinstance(o.exc, (ValueError, TypeError))):
                    w.violate('advertise:%s-wrong-exception:%s' % (form, o.exc_name), repr(o.exc))
                if o.out:
                    w.violate('advertise:%s-emitted' % form, o.out.hex()[:40])
                if form == 'neither' and not o.ok and o.is_h2error() and not client and m.seen_headers:
                    # a state machine may have been consulted: stop here (K03)
                    break
        else:
            form = ch.weighted([(5, 'stream-empty-origin'), (3, 'zero-origin'), (2, 'zero-empty'),
                                (2, 'stream-with-origin')])
            field = b'h2=":%d"' % ch.int(1, 999)
            sid = ch.pick(usable + [w.next_local_id(), 99, 2]) if usable else ch.pick([1, 2, 99])
            if form == 'zero-origin':
                origin = b'alt.example'
                o = w.s.feed(wire.altsvc(0, origin, field))
                want = [('AlternativeServiceAvailable', origin, field)] if client else []
            elif form == 'zero-empty':
                o = w.s.feed(wire.altsvc(0, b'', field))
                want = []
            elif form == 'stream-with-origin':
                o = w.s.feed(wire.altsvc(sid, b'conflict.example', field))
                want = []
                odd_state = True
            else:
                o = w.s.feed(wire.altsvc(sid, b'', field))
                st = m.get(sid)
                own_request_open = client and st is not None and st.state in (M.OPEN, M.HC_LOCAL) and \
                    st.local and not st.pushed
                if own_request_open and not st.r_final:
                    want = [('AlternativeServiceAvailable', authority.get(sid), field)]
                elif client and st is not None and st.pushed and st.state in (M.RES_REMOTE, M.HC_LOCAL) and \
                        not st.r_final:
                    want = None     # pushed stream: either
                    odd_state = True
                else:
                    want = []
                    odd_state = True
            r.step('recv ALTSVC', form, sid, o.brief(), [e for e in o.events])
            if not o.ok:
                w.violate('recv-altsvc:%s:raised:%s' % (form, o.exc_name), repr(o.exc))
                break
            got = [e for e in o.events if e[0] == 'AlternativeServiceAvailable']
            if o.frames or len(got) != len(o.events):
                w.violate('recv-altsvc:%s:side-effects' % form, '%r %r' % (o.events, o.frames))
            if want is None and got and got != [('AlternativeServiceAvailable', authority.get(sid), field)]:
                # whether a promised stream yields the event is left open; if it does, the origin is that of the
                # promised request (RFC 7838 s4: "the origin of that stream"), not of anything else
                w.violate('recv-altsvc:%s:pushed-stream-wrong-origin' % form, 'want origin %r got %r' %
                          (authority.get(sid), got))
            if want is not None and got != want:
                w.violate('recv-altsvc:%s:%s' % (form, 'event-missing-or-wrong' if want else 'not-ignored'),
                          'want %r got %r (%s)' % (want, got, w.tag(sid)))
    if w.s.out_problems:
        w.violate('malformed-output', repr(w.s.out_problems))
    r.nontrivial = odd_state
    return r


def _f25():
    s = Solo(True)
    s.start()
    o = s.call('advertise_alternative_service', b'h2=":1"', origin=b'example.com')
    return ['C24:send:altsvc-origin:client:refused-by-rfc-but-accepted'] if o.ok else []


FINDINGS = {'F25-client-advertises-altsvc': _f25}
