"""C03 Outbound DATA never exceeds the peer's flow-control windows."""
from .. import wire
from ..choose import Chooser
from ..runner import Result
from ..solo import Solo, REQ, RESP

ID = 'C03'
LEVEL = 'exploration'
ENGINE = 'E2 solo'
TECHNIQUE = ('property-based testing: generated send/WINDOW_UPDATE/SETTINGS histories vs. an independent '
             'send-window reference model, with exact-fit and one-byte-over probes')
RULE = ('cases: histories (4..40 steps) over 1..6 streams of send_data (sizes 0, 1, window-1, window, window+1, '
        'drawn; pad None/0/1..255), end_stream, received WINDOW_UPDATE (stream and connection; small, large, '
        'overflowing), received SETTINGS changing INITIAL_WINDOW_SIZE up and down (into negative windows) and '
        'MAX_FRAME_SIZE; servers also promise streams (push_stream), which stay reserved (local) across '
        'window-changing frames before their response headers and DATA are sent; after every step local_flow_control_window must equal min(connection, stream) of the '
        'model and every emitted DATA frame must fit the model windows; probes: window+1 must raise '
        'FlowControlError and emit nothing, then exactly window must succeed; non-trivial = an '
        'INITIAL_WINDOW_SIZE change after data was sent, >= 1 padded frame and >= 2 streams; distinct by trace')
ASSUMPTIONS = ['a send on a negative window is a dont-care (RFC allows empty DATA there, the library refuses it)']
TIERS = {'quick': {'cases': 4000, 'size': 400},
         'thorough': {'cases': 900000, 'size': 600}}
TOP = 2**31 - 1


def run_case(data):
    ch = Chooser(data)
    r = Result()
    client = ch.bool()
    s = Solo(client)
    peer_frame = ch.pick([16384, 16384, 2**24 - 1, 70000])
    iws = ch.pick([65535, 65535, 0, 1, 100, 20000, 200000])
    upgraded = (not client) and ch.chance(40)
    if upgraded:
        # h2c upgrade: the client's settings arrive in the HTTP2-Settings header first; its INITIAL_WINDOW_SIZE
        # governs stream windows only, the connection window starts at 65535 as always (RFC 7540 s6.9.2)
        import base64
        import struct
        payload = struct.pack('>HI', wire.S_MAX_FRAME_SIZE, peer_frame) + struct.pack('>HI', wire.S_INITIAL_WINDOW_SIZE, iws)
        s.call('initiate_upgrade_connection', base64.urlsafe_b64encode(payload).rstrip(b'='))
        s.note_peer_settings([(wire.S_MAX_FRAME_SIZE, peer_frame)])
        o = s.feed(wire.PREFACE + wire.settings([(wire.S_MAX_FRAME_SIZE, peer_frame), (wire.S_INITIAL_WINDOW_SIZE, iws)]) +
                   wire.settings(ack=True))
        if not o.ok:
            r.violate('C03:harness:upgrade-handshake-failed', o.brief())
            return r
        r.labels.add('h2c-upgrade')
    else:
        s.start([(wire.S_MAX_FRAME_SIZE, peer_frame), (wire.S_INITIAL_WINDOW_SIZE, iws)])
    conn = 65535
    streams = {}      # sid -> [window, open]
    closed = {}       # sid -> window of streams the library may still hold
    reserved = {}     # promised sid -> window (server only; reserved (local) until the response headers go out)
    next_sid = 1
    next_push = 2
    if upgraded:
        o = s.call('send_headers', 1, RESP)
        if not o.ok:
            r.violate('C03:harness:upgrade-response-failed', o.brief())
            return r
        streams[1] = [iws, True]
        next_sid = 3
    sent_any = iws_changed_after_data = padded = dead = False
    r.step('role', 'client' if client else 'server', 'peer max frame', peer_frame, 'iws', iws)

    def windows_ok(where):
        for sid, (w, is_open) in list(streams.items()) + [(k, (v, True)) for k, v in reserved.items()]:
            if not is_open:
                continue
            q = s.call('local_flow_control_window', sid)
            if not q.ok or q.value != min(conn, w):
                r.violate('C03:local-window-differs:after-%s' % where.split()[-1],
                          '%s stream %d library %r model min(%d, %d)' % (where, sid, q.value if q.ok else q.exc,
                                                                         conn, w))
                return False
        return True

    def account(o, where):
        """Every DATA frame in the output must fit the model windows."""
        nonlocal conn
        for f in o.frames:
            if f.type == wire.DATA:
                fc = f.f['fc_len']
                st = streams.get(f.stream_id)
                if st is None or fc > st[0] or fc > conn:
                    r.violate('C03:data-exceeds-window', '%s: %d bytes on stream %d, windows conn=%d stream=%r' %
                              (where, fc, f.stream_id, conn, st))
                if f.length > peer_frame:
                    r.violate('C03:data-exceeds-frame-size', '%d > %d' % (f.length, peer_frame))

    def probe(sid, where):
        """window+1 refused and inert, then exactly window accepted."""
        nonlocal conn
        w = min(conn, streams[sid][0])
        if w < 0:
            return
        if w + 1 <= peer_frame:
            o = s.call('send_data', sid, b'p' * (w + 1))
            if o.ok:
                r.violate('C03:one-byte-over-accepted', '%s window %d' % (where, w))
                return
            if o.exc_name != 'FlowControlError':
                r.violate('C03:one-byte-over-wrong-exception:%s' % o.exc_name, where)
            if o.out:
                r.violate('C03:refused-send-emitted', o.out.hex()[:60])
            if not windows_ok(where + ' probe+1'):
                return
        if w <= peer_frame:
            o = s.call('send_data', sid, b'q' * w)
            if not o.ok:
                r.violate('C03:exact-window-refused:%s' % o.exc_name, '%s window %d' % (where, w))
                return
            account(o, where)
            dfs = [f for f in o.frames if f.type == wire.DATA]
            if len(dfs) != 1 or dfs[0].f['fc_len'] != w:
                r.violate('C03:exact-window-wrong-frame', repr(o.frames))
            conn -= w
            streams[sid][0] -= w
            r.labels.add('probed')
            r.step('probe', sid, 'window', w)

    nsteps = ch.int(4, 40)
    for stepno in range(nsteps):
        if r.violations:
            break
        live = [sid for sid, st in streams.items() if st[1]]
        op = ch.weighted([(3, 'open'), (10, 'send'), (3, 'wu-stream'), (3, 'wu-conn'), (3, 'iws'),
                          (1, 'frame-size'), (1, 'end'), (1, 'probe'), (1, 'wu-overflow'),
                          (2, 'push'), (2, 'answer-push'), (1, 'wu-reserved'), (2, 'send-refused')])
        if op in ('push', 'answer-push', 'wu-reserved') and client:
            op = 'send'
        where = 'step %d %s' % (stepno, op)
        if op == 'open' or not streams:
            if len(live) >= 6:
                continue
            sid = next_sid
            next_sid += 2
            if client:
                o = s.call('send_headers', sid, REQ)
            else:
                s.feed(wire.headers(sid, s.hblock(REQ)))
                o = s.call('send_headers', sid, RESP)
            if not o.ok:
                r.violate('C03:harness:open-failed', o.brief())
                break
            streams[sid] = [iws, True]
            r.step('open', sid, 'window', iws)
        elif op == 'push':
            # a promised stream is reserved (local): it has a send window from the start
            # (RFC 7540 s6.9.2 applies INITIAL_WINDOW_SIZE changes to it like to any other stream)
            parents = [sid for sid in live if sid % 2]
            if not parents or len(reserved) >= 3:
                continue
            o = s.call('push_stream', ch.pick(parents), next_push, REQ)
            r.step('push_stream', next_push, o.brief())
            if not o.ok:
                r.violate('C03:harness:push-failed', o.brief())
                break
            reserved[next_push] = iws
            next_push += 2
            r.labels.add('pushed')
        elif op == 'answer-push':
            if not reserved:
                continue
            sid = ch.pick(sorted(reserved))
            o = s.call('send_headers', sid, RESP)
            r.step('send_headers (pushed response)', sid, o.brief())
            if not o.ok:
                r.violate('C03:harness:pushed-response-failed', o.brief())
                break
            streams[sid] = [reserved.pop(sid), True]
            r.labels.add('pushed-stream-answered')
        elif op == 'wu-reserved':
            if not reserved:
                continue
            sid = ch.pick(sorted(reserved))
            inc = ch.weighted([(4, ch.int(1, 70000)), (1, 1)])
            if reserved[sid] + inc > TOP:
                continue
            o = s.feed(wire.window_update(sid, inc))
            r.step('recv WINDOW_UPDATE on reserved', sid, inc, o.brief())
            if not o.ok:
                r.violate('C03:window-update-rejected:reserved:%s' % o.exc_name, '')
                break
            reserved[sid] += inc
        elif op == 'send-refused':
            # DATA on a stream that cannot carry it (we ended it, or it is promised and not yet answered): the
            # call raises and, like every refused send, leaves both windows of everybody else untouched
            cands = [x for x, st in streams.items() if not st[1]] + sorted(reserved)
            if not cands:
                continue
            sid = ch.pick(cands)
            n = ch.pick([1, 1000, 16384])
            o = s.call('send_data', sid, b'r' * n, end_stream=ch.bool())
            r.step('send_data on a stream that cannot send', sid, n, o.brief())
            if o.ok:
                r.violate('C03:send-on-ended-or-reserved-stream-accepted', repr(o.frames)[:120])
                break
            if o.out:
                r.violate('C03:refused-send-emitted', o.out.hex()[:60])
                break
            # (a refused local call closes the stream it addressed - known finding K03: forget that stream)
            reserved.pop(sid, None)
            r.labels.add('refused-send')
        elif op == 'send':
            if not live:
                continue
            sid = ch.pick(live)
            w = min(conn, streams[sid][0])
            pad = ch.pick([None, None, None, 0, 1, 255, ch.int(0, 255)])
            over = 0 if pad is None else pad + 1
            kind = ch.weighted([(4, 'rand'), (2, 'zero'), (1, 'one'), (2, 'w-1'), (3, 'w'), (3, 'w+1'), (2, 'frame-edge')])
            n = {'rand': ch.int(0, max(0, min(w, peer_frame, 70000))), 'zero': 0, 'one': 1, 'w-1': w - 1 - over,
                 'w': w - over, 'w+1': w + 1 - over,
                 # payload within the frame-size limit, payload plus padding around it
                 'frame-edge': peer_frame - ch.int(0, over)}[kind]
            if n < 0:
                n = 0
            if n > 200000:
                n = 200000
            fc = n + over
            end = ch.chance(24)
            o = s.call('send_data', sid, b'd' * n, end_stream=end, pad_length=pad)
            r.step('send_data', sid, 'len', n, 'pad', pad, 'fc', fc, 'window', w, 'end', end, o.brief())
            if w < 0:
                if o.ok:
                    r.violate('C03:sent-on-negative-window', '%d on %d' % (fc, w))
                r.labels.add('negative-window')
            elif fc > w:
                if o.ok:
                    r.violate('C03:send-beyond-window-accepted', 'fc %d window %d' % (fc, w))
                    break
                if o.exc_name != 'FlowControlError':
                    r.violate('C03:send-beyond-window-wrong-exception:%s' % o.exc_name, '')
                if o.out:
                    r.violate('C03:refused-send-emitted', o.out.hex()[:60])
                r.labels.add('refused-by-window')
            elif fc > peer_frame:
                if o.ok or o.exc_name != 'FrameTooLargeError':
                    r.violate('C03:oversize-frame:%s' % o.brief(), 'fc %d limit %d' % (fc, peer_frame))
                if o.out:
                    r.violate('C03:refused-send-emitted', o.out.hex()[:60])
            else:
                if not o.ok:
                    r.violate('C03:fitting-send-refused:%s' % o.exc_name, 'fc %d window %d frame limit %d' %
                              (fc, w, peer_frame))
                    break
                account(o, where)
                dfs = [f for f in o.frames if f.type == wire.DATA]
                if len(dfs) != 1 or dfs[0].f['fc_len'] != fc or dfs[0].f['data'] != b'd' * n:
                    r.violate('C03:send-wrong-frame', repr(o.frames))
                    break
                conn -= fc
                streams[sid][0] -= fc
                sent_any = True
                padded = padded or pad is not None
                if end:
                    closed[sid] = streams[sid][0]
                    streams[sid][1] = False
        elif op == 'end':
            if not live:
                continue
            sid = ch.pick(live)
            o = s.call('end_stream', sid)
            r.step('end_stream', sid, o.brief())
            if not o.ok:
                r.violate('C03:end-stream-refused:%s' % o.exc_name, '')
                break
            closed[sid] = streams[sid][0]
            streams[sid][1] = False
        elif op in ('wu-stream', 'wu-overflow'):
            if not live:
                continue
            sid = ch.pick(live)
            w = streams[sid][0]
            if op == 'wu-overflow':
                inc = min(TOP, TOP - w + ch.pick([1, 2, 100]))
                if inc < 1:
                    continue
            else:
                inc = ch.weighted([(4, ch.int(1, 70000)), (1, max(1, min(TOP, TOP - w))), (1, 1)])
            o = s.feed(wire.window_update(sid, inc))
            r.step('recv WINDOW_UPDATE', sid, inc, o.brief(), [f.brief() for f in o.frames])
            if w + inc > TOP:
                rst = [f for f in o.frames if f.type == wire.RST_STREAM and f.stream_id == sid]
                if o.ok and len(rst) == 1 and rst[0].f.get('code') == wire.FLOW_CONTROL_ERROR:
                    streams[sid][1] = False
                    closed[sid] = w
                elif not o.ok and o.code == wire.FLOW_CONTROL_ERROR:
                    dead = True
                    break
                else:
                    r.violate('C03:stream-window-overflow-not-rejected', '%d + %d: %s' % (w, inc, o.brief()))
                    break
                r.labels.add('stream-window-overflow')
            else:
                if not o.ok:
                    r.violate('C03:window-update-rejected:%s' % o.exc_name, '%d + %d' % (w, inc))
                    break
                streams[sid][0] += inc
        elif op == 'wu-conn':
            inc = ch.weighted([(5, ch.int(1, 70000)), (1, max(1, min(TOP, TOP - conn))),
                               (1, min(TOP, max(1, TOP - conn + 1)))])
            o = s.feed(wire.window_update(0, inc))
            r.step('recv WINDOW_UPDATE', 0, inc, o.brief())
            if conn + inc > TOP:
                if o.ok or o.code != wire.FLOW_CONTROL_ERROR:
                    r.violate('C03:connection-window-overflow-not-rejected', '%d + %d: %s' % (conn, inc, o.brief()))
                r.labels.add('connection-window-overflow')
                dead = True
                break
            if not o.ok:
                r.violate('C03:window-update-rejected:%s' % o.exc_name, '%d + %d' % (conn, inc))
                break
            conn += inc
        elif op == 'iws':
            v = ch.pick([0, 1, 100, 20000, 65535, 70000, 200000, 2**20, iws + 1, max(0, iws - 1)])
            delta = v - iws
            allw = [st[0] for st in streams.values()] + list(closed.values()) + list(reserved.values())
            if any(w + delta > TOP for w in allw):
                continue
            pairs = [(wire.S_INITIAL_WINDOW_SIZE, v)]
            if ch.chance(96):
                # the same SETTINGS frame also carries other settings (in front of it or behind it): MAX_FRAME_SIZE,
                # changed or not, a stream limit, an unknown one
                other = ch.pick([(wire.S_MAX_FRAME_SIZE, peer_frame), (wire.S_MAX_FRAME_SIZE, 32768),
                                 (wire.S_MAX_CONCURRENT_STREAMS, 100), (0x4d, 1), (wire.S_HEADER_TABLE_SIZE, 4096)])
                pairs.insert(ch.int(0, 1), other)
                if other[0] == wire.S_MAX_FRAME_SIZE:
                    peer_frame = other[1]
                r.labels.add('iws-with-other-settings-in-one-frame')
            o = s.feed(wire.settings(pairs))
            r.step('recv SETTINGS', pairs, 'delta', delta, o.brief())
            if not o.ok:
                r.violate('C03:settings-rejected:%s' % o.exc_name, '')
                break
            for st in streams.values():
                st[0] += delta
            for sid in closed:
                closed[sid] += delta
            for sid in reserved:
                reserved[sid] += delta
            if reserved:
                r.labels.add('iws-change-with-reserved-stream')
            iws = v
            if sent_any:
                iws_changed_after_data = True
            if any(st[0] < 0 for st in streams.values() if st[1]):
                r.labels.add('negative-window-reached')
        elif op == 'frame-size':
            peer_frame = ch.pick([16384, 16385, 32768, 2**24 - 1])
            o = s.feed(wire.settings([(wire.S_MAX_FRAME_SIZE, peer_frame)]))
            r.step('recv SETTINGS max frame', peer_frame, o.brief())
            if not o.ok:
                r.violate('C03:settings-rejected:%s' % o.exc_name, '')
                break
        elif op == 'probe':
            if not live:
                continue
            probe(ch.pick(live), where)
        if not r.violations and not windows_ok(where):
            break
    live = [sid for sid, st in streams.items() if st[1]]
    if live and not r.violations and not dead:
        probe(live[0], 'final')
        windows_ok('final probe')
    if s.out_problems:
        r.violate('C03:malformed-output', repr(s.out_problems))
    r.nontrivial = iws_changed_after_data and padded and len(streams) >= 2
    if padded:
        r.labels.add('padded')
    if iws_changed_after_data:
        r.labels.add('iws-change-after-data')
    return r
