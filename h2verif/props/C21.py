"""C21 Results do not depend on how bytes are split."""
from .. import wire, bytesgen
from ..choose import Chooser
from ..runner import Result
from ..drive import Endpoint, norm_event

ID = 'C21'
LEVEL = 'exploration'
ENGINE = 'E3 bytes'
TECHNIQUE = ('differential property-based testing: one-shot vs. chunked delivery of generated / mutated inbound '
             'byte streams on twin connections (all single split points for short streams)')
RULE = ('cases: an inbound byte stream from a peer model (valid conversation incl. CONTINUATION chains, pushes, '
        'settings that change the frame-size limit for later frames), optionally mutated structurally or bytewise, followed by a flood of 1100..2500 small frames of one kind, or by one frame that is 1..50000 bytes longer than the default MAX_FRAME_SIZE (with cuts in its tail); '
        'every single split point for streams <= 300 bytes (sampled otherwise), all pairs of split points for '
        'streams <= 60 bytes, all-one-byte delivery and drawn multi-splits; plus sequences of data_to_send(amount) '
        'reads against a single read on a twin; evaluations count executed (stream, chunking) pairs; non-trivial = '
        'stream with >= 3 frames and a split inside a frame header or the preface, or a settings change that '
        'affects later frames; distinct by (stream, chunking) digest')
ASSUMPTIONS = ['events of a raising receive_data are lost by design: on error only output bytes, exception class '
               'and code are compared']
TIERS = {'quick': {'cases': 2500, 'size': 300},
         'thorough': {'cases': 60000, 'size': 400}}


def deliver(sc, chunks, reuse=None):
    """Feed the chunks without reading the output in between (a received GOAWAY discards bytes the
    application has not read yet, so reading between chunks would itself change the result)."""
    ep = sc.endpoint()
    c = ep.c
    events = []
    err = None
    buf = bytearray(max([len(x) for x in chunks] + [1])) if reuse else None
    for chunk in chunks:
        try:
            if reuse:
                # a receive loop of the recv_into() kind: one buffer, refilled for every call; what the library
                # has not consumed yet must not live in the caller's buffer
                if reuse == 'memoryview':
                    buf[:len(chunk)] = chunk
                    evs = c.receive_data(memoryview(buf)[:len(chunk)])
                    buf[:] = b'\xee' * len(buf)
                else:
                    ba = bytearray(chunk)
                    evs = c.receive_data(ba)
                    ba[:] = b'\xee' * len(ba)      # the caller recycles its buffer afterwards
            else:
                evs = c.receive_data(chunk)
        except Exception as e:   # noqa: BLE001 - classified by the comparison
            code = getattr(e, 'error_code', None)
            err = (type(e).__name__, int(code) if code is not None else None)
            break
        events.extend(norm_event(e) for e in evs)
    return bytes(ep.sent) + c.data_to_send(), events, err


def run_case(data):
    ch = Chooser(data)
    r = Result()
    if ch.chance(24):
        return output_side(ch, r)
    sc = bytesgen.build(ch, big_frames=True)
    frames = sc.frames
    mut = ch.weighted([(5, 'none'), (3, 'frames'), (2, 'bytes'), (1, 'flood'), (1, 'oversize'), (1, 'cont')])
    start = 0 if sc.client else 1
    if mut == 'frames':
        frames, labs = bytesgen.mutate_frames(ch, frames, start)
    tail_cuts = []
    if mut == 'oversize':
        # a last frame that is longer than the default MAX_FRAME_SIZE by one byte, two bytes or a lot (over-long,
        # unless the scenario has raised the limit): refused - or not - at the same point however its tail is cut
        extra = ch.pick([1, 2, 3, 10, 3616, 16384, 50000])
        kind = ch.pick(['data', 'unknown', 'headers'])
        payload = b'o' * (16384 + extra)
        frames = list(frames) + [{'data': wire.data(1, payload), 'unknown': wire.raw(0x77, 0, 0, payload),
                                  'headers': wire.raw(wire.HEADERS, wire.F_END_HEADERS, 101, payload)}[kind]]
        tail_cuts = [1, 2, 3, extra, extra + 1, max(1, extra - 1), 3000]
        r.labels.add('over-long-last-frame')
    if mut == 'cont':
        # a header block in 63..70 (or many more) frames: where the limit on CONTINUATION frames bites does not
        # depend on where the calls end
        frames = list(frames) + bytesgen.continuation_flood(ch, ch.pick([1, 3, 5, 7, 9, 2]))
        r.labels.add('long-continuation-sequence')
    if mut == 'flood':
        # more small frames than the interpreter allows nested calls: one receive_data call or many, the same
        flood, fk = bytesgen.frame_flood(ch)
        frames = list(frames) + flood + list(frames[-1:])
        r.labels.add('flood-of-' + fk)
    stream = b''.join(frames)
    if mut == 'bytes':
        stream = bytesgen.mutate_bytes(ch, stream)
    n = len(stream)
    base = deliver(sc, [stream])
    bounds = wire.frame_boundaries(stream[0 if sc.client else len(wire.PREFACE):])
    off = 0 if sc.client else len(wire.PREFACE)
    inside_header = set()
    for b in bounds[:-1]:
        for d in range(1, 9):
            inside_header.add(off + b + d)
    for d in range(1, off):
        inside_header.add(d)
    cutsets = []
    if n <= 300:
        cutsets += [[i] for i in range(1, n)]
    else:
        cutsets += [[ch.int(1, n - 1)] for _ in range(60)]
    if n <= 60:
        cutsets += [[i, j] for i in range(1, n) for j in range(i + 1, n)]
    if n <= 400:
        cutsets.append(list(range(1, n)))
    cutsets += bytesgen.chunkings(ch, n, 4)
    cutsets += [[n - k] for k in tail_cuts if 0 < k < n] + [[n - a, n - b] for a, b in ((3000, 1), (9, 2))
                                                           if tail_cuts and a < n]
    r.step('role', 'client' if sc.client else 'server', 'mutation', mut, 'frames', len(frames), 'bytes', n,
           'labels', sorted(sc.labels), 'base-error', base[2], stream)
    nframes = len(bounds) - 1
    r.evals = 0
    reuse = ch.pick([None, None, None, 'memoryview', 'bytearray'])
    if reuse:
        r.labels.add('chunks-in-a-reused-' + reuse)
    for cuts in cutsets:
        got = deliver(sc, bytesgen.split(stream, cuts), reuse)
        r.evals += 1
        if got[2] != base[2]:
            r.violate('C21:error-differs:oneshot=%s:chunked=%s' % (base[2], got[2]), 'cuts %r' % (cuts[:6],))
            break
        if got[0] != base[0]:
            r.violate('C21:output-differs', 'cuts %r: %s vs %s' % (cuts[:6], base[0].hex()[:80], got[0].hex()[:80]))
            break
        if base[2] is None and got[1] != base[1]:
            r.violate('C21:events-differ', 'cuts %r' % (cuts[:6],))
            break
    r.nontrivial = (nframes >= 3 and n <= 300) or sc.settings_change
    if 'ack-then-big-frame' in sc.labels:
        r.labels.add('ack-then-big-frame')
    r.labels.add('mutation-' + mut)
    if base[2]:
        r.labels.add('error-stream')
    return r


def output_side(ch, r):
    sc = bytesgen.build(ch, max_frames=8)
    a = sc.endpoint()
    b = sc.endpoint()
    # both endpoints get the same input in the same chunks; a's output is read once at the very end, b's in
    # pieces of drawn sizes - bounded reads and unbounded ones mixed - while more output keeps being produced
    ca, cb = a.c, b.c
    stream = sc.stream()
    whole = bytes(a.sent)
    parts = [bytes(b.sent)]
    cuts = sorted({ch.int(1, max(1, len(stream) - 1)) for _ in range(ch.int(0, 3))}) if len(stream) > 1 else []
    amounts = []
    for chunk in bytesgen.split(stream, cuts):
        for c_ in (ca, cb):
            try:
                c_.receive_data(chunk)
            except Exception:   # noqa: BLE001 - error streams still produce output (GOAWAY)
                pass
        for _ in range(ch.int(0, 6)):
            amt = ch.pick([1, 2, 9, 10, 16, 100, 0, 7, 1000, None])
            amounts.append(amt)
            piece = cb.data_to_send(amt)
            if amt is not None and len(piece) > amt:
                r.violate('C21:read-longer-than-asked', '%d > %d' % (len(piece), amt))
            parts.append(piece)
    whole += ca.data_to_send()
    for _ in range(200):
        amt = ch.pick([1, 2, 9, 10, 16, 100, 0, 7, 1000])
        amounts.append(amt)
        piece = cb.data_to_send(amt)
        if len(piece) > amt:
            r.violate('C21:read-longer-than-asked', '%d > %d' % (len(piece), amt))
        parts.append(piece)
        if amt and not piece:
            break
    parts.append(cb.data_to_send())
    r.step('output-side', 'client' if sc.client else 'server', 'cuts', cuts, amounts[:30], len(whole))
    has_goaway = any(len(f) >= 9 and f != wire.PREFACE and wire.parse_header(f[:9])[1] == wire.GOAWAY
                     for f in sc.frames)
    if has_goaway:
        # a received GOAWAY discards un-read output (C19): how much that is depends on what was read before
        r.labels.add('output-side:goaway-in-stream-not-compared')
    elif b''.join(parts) != whole:
        r.violate('C21:partial-reads-not-a-partition', '%d vs %d bytes' % (len(b''.join(parts)), len(whole)))
    r.nontrivial = len(whole) > 20
    r.labels.add('output-side')
    if None in amounts:
        r.labels.add('output-side:unbounded-read-in-between')
    return r


def _f11():
    sc = bytesgen.Scenario()
    sc.client = False
    sc.prefix = [('initiate_connection', (), {}), ('update_settings', ({wire.S_MAX_FRAME_SIZE: 2**15},), {})]
    from hpack import Encoder
    blk = Encoder().encode(bytesgen.POST)
    sc.frames = [wire.PREFACE, wire.settings(), wire.settings(ack=True), wire.headers(1, blk),
                 wire.settings(ack=True), wire.data(1, b'x' * 20000)]
    stream = sc.stream()
    a = deliver(sc, [stream])
    b = deliver(sc, bytesgen.split(stream, [len(stream) - 20009]))
    return [] if a == b else ['C21:error-differs:oneshot=%s:chunked=%s' % (a[2], b[2])]


FINDINGS = {'F11-frame-size-limit-snapshot-per-call': _f11}
