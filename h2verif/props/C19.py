"""C19 A closed connection stays quiet."""
from .. import wire, bytesgen
from ..choose import Chooser
from ..runner import Result
from ..drive import Endpoint, h2
from . import C18

ID = 'C19'
LEVEL = 'exploration'
ENGINE = 'E2 solo'
TECHNIQUE = ('property-based testing: generated prefix, closure by every route, then generated API calls and peer '
             'frames; output monitor "nothing but GOAWAY after closure"')
RULE = ('cases: a valid prefix that opens and closes streams, closure by close_connection / a received GOAWAY / one '
        'connection error from a C18 category (optionally with received data partly acknowledged and a local '
        'SETTINGS change still unacknowledged at that moment), then 5..30 steps of arbitrary API calls (all of them, including '
        'acknowledge_received_data, increment_flow_control_window, clear_outbound_data_buffer) and received frames of '
        'every type; also: un-read output (including our own GOAWAY after a local close) is discarded by a received GOAWAY; non-trivial = the suffix holds >= 1 call '
        'and >= 1 frame that would have produced output before closure; distinct by trace')
ASSUMPTIONS = ['calls that raise must raise an h2 exception (or the documented ValueError/TypeError argument checks)']
TIERS = {'quick': {'cases': 5000, 'size': 300},
         'thorough': {'cases': 1000000, 'size': 400}}
REQ = bytesgen.REQ
RESP = [(b':status', b'200')]


def run_case(data):
    ch = Chooser(data)
    r = Result()
    client = ch.bool()
    if ch.chance(32):
        return discard_case(ch, r, client)
    ep, enc, highest, next_sid, open_sid, data_sid, steps = C18.valid_prefix(ch, client)
    r.step('role', 'client' if client else 'server', 'prefix', steps)
    # give the application something to acknowledge
    if data_sid:
        ep.recv(wire.data(data_sid, b'x' * 16384) + wire.data(data_sid, b'x' * 16384) +
                wire.data(data_sid, b'x' * 7232))
    # state that a frame arriving after closure could still act on: acknowledged-but-uncredited bytes and a
    # local settings change whose acknowledgement is still in flight
    if data_sid and ch.bool():
        ep.call('acknowledge_received_data', ch.pick([20000, 1000, 30000]), data_sid)
        r.labels.add('partly-acknowledged-before-close')
    if ch.chance(100):
        ep.call('update_settings', {wire.S_INITIAL_WINDOW_SIZE: ch.pick([30000, 1000, 0, 100000]),
                                    wire.S_MAX_CONCURRENT_STREAMS: ch.pick([0, 1, 50])})
        r.labels.add('settings-in-flight-at-close')
    if ch.bool():
        _ = ep.c.open_outbound_streams, ep.c.open_inbound_streams     # closed streams leave the stream table
        r.labels.add('closed-streams-cleaned-up-before-close')
    route = ch.weighted([(3, 'close_connection'), (3, 'recv-goaway'), (4, 'connection-error')])
    if route == 'close_connection':
        o = ep.call('close_connection', ch.pick([0, 2, 11]))
        if not o.ok:
            r.violate('C19:close_connection-failed', repr(o.exc))
            return r
    elif route == 'recv-goaway':
        o = ep.recv(wire.goaway(ch.int(0, 9), ch.pick([0, 1]), b'dbg'))
        if not o.ok or not any(e[0] == 'ConnectionTerminated' for e in o.events):
            r.violate('C19:goaway-not-accepted', o.brief())
            return r
    else:
        for _ in range(8):
            name = ch.pick(C18.VIOLATIONS)[0]
            code, fn = C18.BY_NAME[name]
            c = C18.Ctx(ch, ep, client, enc, highest, next_sid, open_sid)
            data_v = fn(c)
            if data_v is None:
                continue
            o = ep.recv(data_v)
            if o.ok:
                continue
            route += ':' + name
            break
        else:
            return r
        if o.ok:
            return r
    r.step('closed by', route)
    calls = frames = 0
    all_sids = [s for s, _ in steps] + [next_sid, 2, 99]
    for stepno in range(ch.int(5, 30)):
        sid = ch.pick(all_sids)
        op = ch.weighted([(12, 'call'), (8, 'frame')])
        if op == 'call':
            name = ch.pick(['send_headers', 'send_data', 'end_stream', 'increment-conn', 'increment-stream',
                            'push_stream', 'ping', 'reset_stream', 'update_settings', 'altsvc', 'prioritize', 'ack',
                            'close_connection', 'clear', 'query', 'initiate_connection'])
            if name == 'send_headers':
                o = ep.call('send_headers', sid, REQ if client else RESP, end_stream=ch.bool())
            elif name == 'send_data':
                o = ep.call('send_data', sid, b'abc', end_stream=ch.bool())
            elif name == 'end_stream':
                o = ep.call('end_stream', sid)
            elif name == 'increment-conn':
                o = ep.call('increment_flow_control_window', ch.pick([1, 1000]))
            elif name == 'increment-stream':
                o = ep.call('increment_flow_control_window', 10, sid)
            elif name == 'push_stream':
                o = ep.call('push_stream', sid, ch.pick([2, 4, 100]), REQ)
            elif name == 'ping':
                o = ep.call('ping', b'12345678')
            elif name == 'reset_stream':
                o = ep.call('reset_stream', sid)
            elif name == 'update_settings':
                o = ep.call('update_settings', {wire.S_INITIAL_WINDOW_SIZE: 1000})
            elif name == 'altsvc':
                o = ep.call('advertise_alternative_service', b'h2=":1"', origin=b'example.com')
            elif name == 'prioritize':
                o = ep.call('prioritize', sid, weight=5)
            elif name == 'ack':
                o = ep.call('acknowledge_received_data', ch.pick([40000, 65535, 1, 0]), ch.pick([sid, data_sid or 1]))
            elif name == 'close_connection':
                o = ep.call('close_connection', ch.pick([0, 1]))
            elif name == 'clear':
                o = ep.call('clear_outbound_data_buffer')
            elif name == 'initiate_connection':
                o = ep.call('initiate_connection')
            else:
                o = ep.call(ch.pick(['local_flow_control_window', 'remote_flow_control_window']), sid)
            calls += 1
            r.step('call', name, sid, o.brief())
            emitted, rest = wire.parse_all(o.out)
            bad = [f for f in emitted if f.type != wire.GOAWAY]
            if bad or rest:
                r.violate('C19:call-emitted-after-close:%s:%s' % (name, bad[0].name if bad else 'partial'),
                          repr(emitted))
            if not o.ok and not (o.is_h2error() or type(o.exc) in (ValueError, TypeError)):
                r.violate('C19:undocumented-exception-after-close:%s:%s' % (name, o.exc_name), repr(o.exc))
            if o.ok and name in ('send_headers', 'send_data', 'end_stream', 'increment-conn', 'increment-stream',
                                 'push_stream', 'ping', 'reset_stream', 'update_settings', 'altsvc', 'prioritize',
                                 'initiate_connection'):
                r.violate('C19:emitting-call-succeeded-after-close:%s' % name, repr(emitted))
        else:
            kind = ch.pick(['headers', 'data', 'rst', 'wu0', 'wu', 'settings', 'settings-ack', 'ping', 'prio',
                            'push', 'cont', 'altsvc', 'unknown', 'goaway'])
            blk = enc.encode(REQ if not client else RESP)
            fr = {'headers': wire.headers(sid, blk), 'data': wire.data(sid, b'x'),
                  'rst': wire.rst_stream(sid, 8), 'wu0': wire.window_update(0, 5), 'wu': wire.window_update(sid, 5),
                  'settings': wire.settings([(3, 7)]), 'settings-ack': wire.settings(ack=True),
                  'ping': wire.ping(b'abcdefgh'), 'prio': wire.priority(sid, 0, 3),
                  'push': wire.push_promise(sid, 100, blk), 'cont': wire.continuation(sid, b''),
                  'altsvc': wire.altsvc(0, b'a.example', b'h2=":1"'), 'unknown': wire.raw(0x33, 0, sid, b'zz'),
                  'goaway': wire.goaway(0, 0)}[kind]
            o = ep.recv(fr)
            frames += 1
            r.step('recv', kind, sid, o.brief())
            emitted, rest = wire.parse_all(o.out)
            bad = [f for f in emitted if f.type != wire.GOAWAY]
            if bad or rest:
                r.violate('C19:frame-answered-after-close:%s:%s' % (kind, bad[0].name if bad else 'partial'),
                          repr(emitted))
            if not o.ok and not o.is_protocol_error():
                r.violate('C19:non-protocol-exception-after-close:%s:%s' % (kind, o.exc_name), repr(o.exc))
            if kind == 'goaway' and not o.ok and not route.startswith('connection-error'):
                # (after a connection error the unparsed input may still hold the offending frame)
                r.violate('C19:goaway-rejected-after-close', o.brief())
    r.nontrivial = calls >= 1 and frames >= 1
    r.labels.add('route-' + route.split(':')[0])
    return r


def discard_case(ch, r, client):
    """A received GOAWAY discards bytes not yet handed to the application."""
    ep = Endpoint(client)
    c = ep.c
    c.initiate_connection()
    c.data_to_send()
    c.receive_data((b'' if client else wire.PREFACE) + wire.settings())
    pending = 0
    local_closed = False
    if client:
        c.send_headers(1, REQ)
        pending += 1
    for _ in range(ch.int(0, 4)):
        c.ping(ch.bytes(8))
        pending += 1
    if ch.chance(100):
        # we closed the connection ourselves first: our GOAWAY and whatever was queued before it are still unread
        c.close_connection(ch.pick([0, 2]))
        pending += 1
        local_closed = True
        r.labels.add('discard-after-local-close')
    r.step('discard', 'client' if client else 'server', 'pending calls', pending)
    lead = b''
    for _ in range(0 if local_closed else ch.int(0, 3)):
        # frames that call for an answer, in the same receive_data call ahead of the GOAWAY: their answers
        # are un-read bytes like any others
        lead += ch.pick([wire.ping(ch.bytes(8)), wire.settings([(3, ch.int(1, 9))]), wire.settings()])
    if lead:
        r.labels.add('discard-answers-queued-in-the-same-call')
    tail = b''
    if ch.chance(80):
        # a frame behind the GOAWAY in the same call: it is an error on the closed connection, which may add one
        # GOAWAY of ours - and nothing of what the peer's GOAWAY has discarded
        tail = ch.pick([wire.ping(ch.bytes(8)), wire.window_update(0, 0), wire.data(1, b'x'), wire.settings()])
        r.labels.add('frame-behind-the-goaway-in-the-same-call')
    try:
        evs = c.receive_data(lead + wire.goaway(0, ch.pick([0, 2])) + tail)
    except Exception as e:   # noqa: BLE001
        if not tail or not isinstance(e, h2.exceptions.ProtocolError):
            r.violate('C19:goaway-rejected:%s' % type(e).__name__, repr(e))
            return r
    left = c.data_to_send()
    if tail:
        extra = [f for f in wire.parse_all(left)[0]]
        if len(extra) > 1 or any(f.type != wire.GOAWAY for f in extra):
            r.violate('C19:pending-output-not-discarded-by-goaway', repr(extra)[:160])
    elif left:
        r.violate('C19:pending-output-not-discarded-by-goaway', left.hex()[:60])
    r.nontrivial = pending > 0
    r.labels.add('discard')
    return r


def _f28():
    ep = Endpoint(False)
    ep.call('initiate_connection')
    from hpack import Encoder
    ep.recv(wire.PREFACE + wire.settings() + wire.headers(1, Encoder().encode(bytesgen.POST)))
    for n in (16384, 16384, 7232):
        ep.recv(wire.data(1, b'x' * n))
    ep.call('close_connection')
    o = ep.call('acknowledge_received_data', 40000, 1)
    return ['C19:call-emitted-after-close:ack:WINDOW_UPDATE'] if o.out else []


FINDINGS = {'F28-acknowledge-emits-after-close': _f28}
