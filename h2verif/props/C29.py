"""C29 API misuse is reported only through documented exceptions and emits nothing."""
from hpack import Encoder

from .. import wire, model as M
from ..choose import Chooser
from ..runner import Result
from ..prog import World
from ..solo import Solo, REQ, RESP
from ..drive import h2

ID = 'C29'
LEVEL = 'exploration'
ENGINE = 'E2 solo'
ATHERIS = True
TECHNIQUE = ('property-based testing / fuzzing of the call surface: generated programs of every public call with '
             'arbitrary well-typed arguments in every connection and stream state; exception-class and '
             'no-emission oracle, model-predicted StreamClosedError / NoSuchStreamError')
RULE = ('cases: programs (5..45 steps) of every public call (send_headers with valid / invalid / empty / '
        'frame-filling lists and priority arguments, send_data of 0..70000 bytes with and without padding, end_stream, '
        'increment_flow_control_window, push_stream, ping, reset_stream, close_connection, update_settings, '
        'advertise_alternative_service, prioritize, window queries, acknowledge_received_data, data_to_send, '
        'get_next_available_stream_id) with stream ids that are live, closed, cleaned up, never used or out of range, '
        'interleaved with peer frames that open / close streams and with clean-up triggers; non-trivial = a call '
        'addressed to a cleaned-up stream, or a raising call after a successful call on the same stream; '
        'distinct by trace')
ASSUMPTIONS = ['well-typed arguments per DESIGN.md s4.1 (ints, bytes, lists of 2-tuples; no None where a value is '
               'required)', 'send_headers on a forgotten stream may raise StreamIDTooLowError (the library cannot tell '
               'a late send from an attempt to open a low id)']
TIERS = {'quick': {'cases': 6000, 'size': 400, 'atheris_runs': 16000},
         'thorough': {'cases': 300000, 'size': 500, 'atheris_runs': 640000}}
TOP = 2**31 - 1

HEADER_LISTS = [
    ('req', REQ), ('resp', RESP), ('info', [(b':status', b'100')]), ('trailers', [(b'x-t', b'1')]), ('empty', []),
    ('no-path', [(b':method', b'GET'), (b':scheme', b'https'), (b':authority', b'a')]),
    ('upper', [(b':status', b'200'), (b'X-Up', b'v')]), ('conn', REQ + [(b'connection', b'close')]),
    ('str', [(':method', 'GET'), (':scheme', 'https'), (':authority', 'example.com'), (':path', '/')]),
    ('dup', REQ + [(b':path', b'/b')]), ('empty-name', RESP + [(b'', b'v')]),
    ('unencodable', REQ + [('x-bad-text', 'v\udcff')]),
]


def big_list(n):
    return REQ + [(b'x-fill', b'X' * n)]


def _b64(body, pad=True):
    import base64
    v = base64.urlsafe_b64encode(body)
    return v if pad else v.rstrip(b'=')


def cold_case(ch, r):
    """Programs that begin before the connection has been started: a few public calls on the idle connection,
    then initiate_connection or initiate_upgrade_connection - the latter with whatever bytes the peer put into its
    HTTP2-Settings field.  Same oracle: a documented exception class or success, no bytes from a call that raises;
    and a refused start can be followed by a proper one."""
    import struct
    from ..drive import Endpoint
    client = ch.bool()
    ep = Endpoint(client)
    raised = False

    def judge(name, o):
        nonlocal raised
        if o.ok:
            return
        raised = True
        e = o.exc
        if not isinstance(e, (h2.exceptions.H2Error, ValueError, TypeError)):
            r.violate('C29:undocumented-exception:%s:%s' % (type(e).__name__, name), repr(e)[:200])
        if o.out:
            r.violate('C29:raising-call-emitted:%s:%s' % (name, type(e).__name__), o.out.hex()[:60])

    for _ in range(ch.int(0, 3)):
        op = ch.pick(['update_settings', 'update_settings', 'ping', 'prioritize', 'increment', 'send_headers',
                      'list-settings', 'reset', 'data'])
        if op == 'update_settings':
            new = ch.pick([{0x7f: 1}, {4: 100}, {0x7f: 1, 3: 5}, {2: 2}, {9: 0}, {}])
            o = ep.call('update_settings', dict(new))
        elif op == 'ping':
            o = ep.call('ping', b'12345678')
        elif op == 'prioritize':
            o = ep.call('prioritize', 1, weight=ch.pick([1, 256]))
        elif op == 'increment':
            o = ep.call('increment_flow_control_window', ch.pick([1, 1000]), ch.pick([None, 1]))
        elif op == 'send_headers':
            o = ep.call('send_headers', 1, list(REQ))
        elif op == 'reset':
            o = ep.call('reset_stream', 1)
        elif op == 'data':
            o = ep.call('send_data', 1, b'x')
        else:
            # the settings objects are mappings: walking them is part of the public interface
            o = ep.call('local_settings')     # not callable: replaced below
            o.ok, o.exc = True, None
            try:
                dict(ep.c.local_settings), dict(ep.c.remote_settings), len(ep.c.local_settings)
            except Exception as e:   # noqa: BLE001 - classified right here
                r.violate('C29:undocumented-exception:%s:iterating-settings' % type(e).__name__, repr(e)[:100])
        r.step('before the start', op, o.brief())
        judge(op, o)
    how = ch.pick(['initiate_connection', 'initiate_upgrade_connection', 'initiate_upgrade_connection'])
    if how == 'initiate_connection':
        o = ep.call(how)
        r.step(how, o.brief())
    else:
        body = ch.pick([struct.pack('>HI', 4, 100), struct.pack('>HI', 4, 100) + struct.pack('>HI', 1, 0), b'',
                        b'\0\1\0\0\0', struct.pack('>HI', 2, 2), struct.pack('>HI', 4, 2**31),
                        struct.pack('>HI', 5, 1), struct.pack('>HI', 0x99, 7), ch.bytes(ch.int(1, 13))])
        header = ch.pick([_b64(body), _b64(body), _b64(body, pad=False), b'\xff\xfe', b'AAE', _b64(body).decode()])
        o = ep.call(how, *([header] if not client or ch.chance(64) else []))
        r.step(how, header, o.brief())
        r.labels.add('cold:upgrade-' + ('refused' if not o.ok else 'accepted'))
    judge(how, o)
    if not o.ok and not r.violations:
        # the refused start changed nothing that matters: starting properly still works and sends the preamble
        o2 = ep.call('initiate_connection')
        r.step('initiate_connection after the refused start', o2.brief())
        if o2.ok and not (o2.out.startswith(wire.PREFACE) if client else len(o2.out) >= 9):
            r.violate('C29:start-after-refused-start-sends-no-preamble', o2.out.hex()[:60])
        judge('initiate_connection', o2)
    r.nontrivial = raised
    r.labels.add('cold-start-program')
    return r


def run_case(data):
    ch = Chooser(data)
    r = Result()
    if ch.chance(24):
        return cold_case(ch, r)
    client = ch.bool()
    w = World(client, r, 'C29')
    m = w.m
    s = w.s
    forgotten = set()
    unknown = set()           # streams whose library state the model no longer follows
    succeeded_on = set()
    r.step('role', 'client' if client else 'server')
    cleaned_target = raise_after_success = False
    if ch.chance(40):
        # a header block that fills the frame exactly, with priority arguments / as a push (fresh encoder)
        from .C02 import sized_headers
        hdrs = sized_headers(None, Encoder(), list(REQ), 16384 - ch.int(0, 5))
        if client:
            o = s.call('send_headers', 1, hdrs, priority_weight=ch.pick([1, 16, 256]))
            r.step('send_headers(frame-filling, priority)', o.brief())
            if o.ok:
                m.apply_send_headers(1, 'request', False)
        else:
            w.recv_headers(1, 'final', False)
            o = s.call('push_stream', 1, 2, hdrs)
            r.step('push_stream(frame-filling)', o.brief())
            if o.ok:
                m.apply_push(1, 2)
        if not o.ok:
            e = o.exc
            if not (isinstance(e, h2.exceptions.H2Error) or type(e) in (ValueError, TypeError)):
                w.violate('undocumented-exception:%s:frame-filling-block' % type(e).__name__, repr(e)[:100])
            if o.out:
                w.violate('raising-call-emitted:frame-filling-block:%s' % type(e).__name__, o.out.hex()[:40])
        elif any(f.length > 16384 for f in o.frames):
            w.violate('frame-exceeds-max-frame-size:frame-filling-block', '')

    lib_hi = {0: 0, 1: 0}     # highest id of each parity that any successful call or accepted frame has used

    def note_used(sid_):
        if isinstance(sid_, int) and 0 < sid_ <= TOP:
            lib_hi[sid_ % 2] = max(lib_hi[sid_ % 2], sid_)

    def pick_sid():
        known = sorted(m.streams)
        k = ch.weighted([(8, 'known'), (6, 'forgotten'), (3, 'idle-local'), (2, 'idle-peer'), (1, 'top'), (1, 'big')])
        if k == 'known' and known:
            return ch.pick(known)
        if k == 'forgotten' and forgotten:
            return ch.pick(sorted(forgotten))
        if k == 'idle-local':
            return w.next_local_id() + 2 * ch.int(0, 3)
        if k == 'idle-peer':
            return w.next_peer_id() + 2 * ch.int(0, 3)
        if k == 'top':
            return ch.pick([TOP, TOP - 1])
        return ch.pick([TOP + 2, 2**32 + 1, 2**40])

    def check(name, sid, o, expect_class=None):
        """The C29 oracle for one outcome."""
        nonlocal cleaned_target, raise_after_success
        st = m.get(sid) if sid is not None else None
        if sid is not None and sid in forgotten:
            cleaned_target = True
        if o.ok:
            if sid is not None:
                succeeded_on.add(sid)
            return
        if sid in succeeded_on:
            raise_after_success = True
        e = o.exc
        # (UnicodeEncodeError for text that cannot be encoded is a ValueError)
        documented = isinstance(e, h2.exceptions.H2Error) or type(e) in (ValueError, TypeError, UnicodeEncodeError)
        if not documented:
            w.violate('undocumented-exception:%s:%s' % (type(e).__name__, name), repr(e)[:200])
        if o.out:
            w.violate('raising-call-emitted:%s:%s' % (name, type(e).__name__), o.out.hex()[:60])
        if expect_class is not None and isinstance(e, h2.exceptions.H2Error) and sid not in unknown and \
                not m.closed and sid <= TOP:
            ok_classes = expect_class
            right = isinstance(e, ok_classes)
            if ok_classes == (h2.exceptions.NoSuchStreamError,) and isinstance(e, h2.exceptions.StreamClosedError):
                right = False       # (StreamClosedError derives from NoSuchStreamError: a never-used id is not "closed")
            if right:
                pass
            elif not isinstance(e, ok_classes) and not connection_alive():
                # the connection was closed by an earlier refused call (K03) or an error: any ProtocolError
                m.closed = 'unknown'
            else:
                w.violate('wrong-exception-class:%s:%s:want=%s' % (name, type(e).__name__, ok_classes[0].__name__),
                          'stream %r (%s)' % (sid, w.tag(sid)))

    def connection_alive():
        return s.call('ping', b'\0' * 8).ok

    def stream_expectation(sid, name):
        """Exception classes the property prescribes for a stream-addressed call, or None."""
        if m.closed:
            return None
        cls = m.classify(sid)
        if sid in forgotten:
            if name == 'send_headers':
                return (h2.exceptions.StreamClosedError, h2.exceptions.StreamIDTooLowError)
            return (h2.exceptions.StreamClosedError,)
        if cls == 'idle' and name not in ('send_headers',):
            if not m.seen_headers:
                return None      # nothing has happened on the connection yet: any ProtocolError
            if sid <= lib_hi[sid % 2]:
                return None      # a call the model did not follow has used a higher id of this parity since
            return (h2.exceptions.NoSuchStreamError,)
        return None

    for stepno in range(ch.int(5, 45)):
        if w.stop:
            break
        if any(not k.startswith('C29:send:') and not k.startswith('C29:recv:') and 'data-before' not in k
               for k, _ in r.violations):
            break
        op = ch.weighted([(7, 'send_headers'), (6, 'send_data'), (3, 'end_stream'), (3, 'increment'), (3, 'push'),
                          (2, 'ping'), (4, 'reset'), (1, 'close'), (2, 'settings'), (2, 'altsvc'), (2, 'prioritize'),
                          (2, 'window-query'), (3, 'ack'), (1, 'data_to_send'), (1, 'next-id'), (5, 'cleanup'),
                          (7, 'peer-open'), (6, 'peer-close'), (2, 'peer-response'), (2, 'peer-window'),
                          (2, 'peer-ack')])
        sid = pick_sid()
        if op == 'send_headers':
            lname, hdrs = ch.pick(HEADER_LISTS)
            if ch.chance(24):
                lname, hdrs = 'frame-filling', big_list(16384 - ch.int(60, 75))
            elif ch.chance(24):
                # a block that needs CONTINUATION frames at the peer's frame size (whatever ours has become), as a
                # request, a response or trailers
                base = ch.pick([REQ, RESP, [(b'x-t', b'1')]])
                lname, hdrs = 'multi-frame', base + [(b'x-fill', b'X' * ch.pick([17000, 30000]))]
            kw = {}
            if ch.chance(64):
                kw['priority_weight'] = ch.pick([1, 256, 0, 257, 16])
            if ch.chance(32):
                kw['priority_depends_on'] = ch.pick([0, sid, 1])
            es = ch.bool()
            kind = {'req': 'final', 'resp': 'final', 'info': 'info', 'trailers': 'trailers', 'str': 'final'}.get(lname)
            st = m.get(sid)
            pos = m.headers_position(st)
            plain = kind is not None and not kw and ((lname in ('req', 'str')) == (pos == 'request') or
                                                     kind != 'final')
            if plain and sid not in unknown and sid not in forgotten and sid <= TOP:
                verdict, what = m.send_headers_verdict(sid, kind, es)
            else:
                verdict, what = M.DONTCARE, 'unmodelled'
            o = s.call('send_headers', sid, hdrs, end_stream=es, **kw)
            r.step('send_headers', sid, lname, es, kw, o.brief())
            if o.ok:
                note_used(sid)
            if o.ok and verdict == M.PERMIT:
                m.apply_send_headers(sid, what, es)
            elif o.ok or verdict == M.PERMIT:
                unknown.add(sid)
            elif what not in ('stream-closed', 'stream-id-too-low', 'no-such-stream', 'unmodelled',
                              'too-many-streams', 'connection-closed', 'server-cannot-open-stream', 'wrong-parity'):
                unknown.add(sid)
            check('send_headers', sid, o, stream_expectation(sid, 'send_headers')
                  if (not kw and lname in ('req', 'resp', 'trailers', 'str')) else None)
        elif op == 'send_data':
            n = ch.weighted([(5, ch.int(0, 100)), (1, 16384), (1, 16385), (1, 65535), (1, 70000), (2, 0)])
            pad = ch.pick([None, None, 0, 255, 256, -1])
            es = ch.chance(64)
            verdict, what = m.send_data_verdict(sid, es) if sid <= TOP and sid not in unknown else (M.DONTCARE, '')
            o = s.call('send_data', sid, b'z' * n, end_stream=es, pad_length=pad)
            r.step('send_data', sid, n, pad, es, o.brief())
            if o.ok and verdict == M.PERMIT and es:
                m.get(sid).send_end()
            elif o.ok and verdict != M.PERMIT:
                unknown.add(sid)
            elif not o.ok and what.startswith(('state:', 'message:')):
                unknown.add(sid)
            if pad in (256, -1) and not o.ok and type(o.exc) is ValueError:
                pass
            check('send_data', sid, o, stream_expectation(sid, 'send_data') if pad in (None, 0, 255) else None)
        elif op == 'end_stream':
            verdict, what = m.send_data_verdict(sid, True) if sid <= TOP and sid not in unknown else (M.DONTCARE, '')
            o = s.call('end_stream', sid)
            r.step('end_stream', sid, o.brief())
            if o.ok and verdict == M.PERMIT:
                m.get(sid).send_end()
            elif o.ok:
                unknown.add(sid)
            elif what.startswith(('state:', 'message:')) or not m.seen_headers:
                unknown.add(sid)
                if not m.seen_headers:
                    w.stop = True
            check('end_stream', sid, o, stream_expectation(sid, 'end_stream'))
        elif op == 'increment':
            inc = ch.pick([1, 100, 0, -5, TOP, TOP + 1, 65535])
            target = ch.pick([None, sid])
            o = s.call('increment_flow_control_window', inc, target)
            r.step('increment_flow_control_window', inc, target, o.brief())
            if target is not None and not o.ok and isinstance(o.exc, h2.exceptions.H2Error):
                st = m.get(target)
                if st is not None and st.state in (M.RES_LOCAL,):
                    unknown.add(target)
            exp = stream_expectation(target, 'increment') if (target is not None and 1 <= inc <= TOP) else None
            check('increment_flow_control_window', target, o, exp)
        elif op == 'push':
            promised = ch.pick([w.next_local_id(), 2, 4, 3, TOP - 1, TOP + 1])
            lname, hdrs = ch.pick(HEADER_LISTS[:1] * 3 + HEADER_LISTS)
            verdict, what = m.push_verdict(sid, promised) if sid <= TOP and sid not in unknown else (M.DONTCARE, '')
            o = s.call('push_stream', sid, promised, hdrs)
            r.step('push_stream', sid, promised, lname, o.brief())
            if o.ok:
                note_used(promised)
            if o.ok and verdict == M.PERMIT and lname in ('req', 'str'):
                m.apply_push(sid, promised)
            elif o.ok:
                unknown.add(sid)
                unknown.add(promised)
            elif not o.ok and (what.startswith('state:') or (not client and not m.seen_headers)):
                unknown.add(sid)
                if not m.seen_headers:
                    w.stop = True
            exp = stream_expectation(sid, 'push_stream') if (
                not client and m.peer_enable_push and promised == w.next_local_id() <= TOP and lname in ('req', 'str')
                and sid % 2 == 1) else None
            check('push_stream', sid, o, exp)
        elif op == 'peer-ack':
            # the peer acknowledges our SETTINGS (a larger local MAX_FRAME_SIZE says nothing about what we may send)
            if m.closed:
                continue
            o = s.feed(wire.settings(ack=True))
            r.step('recv SETTINGS ACK', o.brief())
            if not o.ok:
                w.stop = True
        elif op == 'peer-window':
            # the peer changes INITIAL_WINDOW_SIZE: send windows may become zero or negative, which only ever
            # turns sends into FlowControlError
            if m.closed:
                continue
            v = ch.pick([0, 1, 100, 65535, 20])
            o = s.feed(wire.settings([(wire.S_INITIAL_WINDOW_SIZE, v)]))
            r.step('recv SETTINGS INITIAL_WINDOW_SIZE', v, o.brief())
            if not o.ok:
                w.stop = True
        elif op == 'ping':
            p = ch.bytes(ch.pick([8, 8, 0, 7, 9]))
            o = s.call('ping', p)
            check('ping', None, o)
        elif op == 'reset':
            code = ch.pick([0, 8, 2**32 - 1, 0x1ff])
            verdict, what = m.reset_verdict(sid) if sid <= TOP and sid not in unknown else (M.DONTCARE, '')
            o = s.call('reset_stream', sid, code)
            r.step('reset_stream', sid, code, o.brief())
            if o.ok and verdict == M.PERMIT:
                m.get(sid).close('send-rst')
            elif o.ok:
                unknown.add(sid)
            elif not m.seen_headers:
                w.stop = True
            check('reset_stream', sid, o, stream_expectation(sid, 'reset_stream'))
        elif op == 'close':
            # debug data of any length is well-typed; 8 + 16376 bytes fill a default-sized frame exactly
            extra = ch.pick([None, b'', b'bye', b'bye', b'd' * 16376, b'd' * 16377, b'd' * 20000])
            alive_before = bool(extra) and len(extra) > 16376 and not m.closed and connection_alive()
            o = s.call('close_connection', ch.pick([0, 1, 2**32 - 1]), extra, ch.pick([None, 0, sid]))
            r.step('close_connection', o.brief())
            if o.ok:
                m.closed = 'sent-goaway'
            check('close_connection', None, o)
            if alive_before and not o.ok and o.exc_name == 'FrameTooLargeError' and not connection_alive():
                # refused for the size of its debug data, not by any state machine: the connection is what it was
                w.violate('refused-close_connection-closed-the-connection', repr(o.exc)[:100])
        elif op == 'settings':
            new = ch.pick([{4: 100}, {5: 16384}, {2: 2}, {4: 2**31}, {5: 1}, {3: 0}, {0x7f: 1}, {}, {1: 0, 8: 5},
                           {5: 32768}, {5: 2**24 - 1}])
            o = s.call('update_settings', dict(new))
            r.step('update_settings', new, o.brief())
            check('update_settings', None, o)
        elif op == 'altsvc':
            form = ch.pick(['origin', 'stream', 'both', 'neither', 'str-field'])
            # field values of any length are well-typed; 2 + origin + field bytes must fit one frame
            field = ch.pick([b'h2=":1"', b'h2=":1"', b'h2=":1"', b'f' * 16371, b'f' * 16372, b'f' * 16382, b'f' * 16383,
                             b'f' * 30000])
            if form == 'origin':
                o = s.call('advertise_alternative_service', field, origin=b'example.com')
            elif form == 'stream':
                o = s.call('advertise_alternative_service', field, stream_id=sid)
                if not o.ok and isinstance(o.exc, h2.exceptions.H2Error) and not client:
                    unknown.add(sid)
            elif form == 'both':
                o = s.call('advertise_alternative_service', b'h2=":1"', origin=b'a', stream_id=sid)
            elif form == 'neither':
                o = s.call('advertise_alternative_service', b'h2=":1"')
            else:
                o = s.call('advertise_alternative_service', 'h2=":1"', origin=b'a')
            r.step('advertise_alternative_service', form, sid, o.brief())
            if not o.ok and isinstance(o.exc, h2.exceptions.H2Error) and not client and not m.seen_headers:
                w.stop = True
            check('advertise_alternative_service:' + form, sid if form == 'stream' else None, o,
                  stream_expectation(sid, 'altsvc') if (form == 'stream' and not client) else None)
        elif op == 'prioritize':
            kw = {}
            if ch.bool():
                kw['weight'] = ch.pick([1, 256, 0, 257, -1])
            if ch.bool():
                kw['depends_on'] = ch.pick([0, min(sid, TOP), 3])
            if ch.bool():
                kw['exclusive'] = ch.bool()
            o = s.call('prioritize', sid if sid <= TOP else 1, **kw)
            r.step('prioritize', sid, kw, o.brief())
            check('prioritize', None, o)
        elif op == 'window-query':
            which = ch.pick(['local_flow_control_window', 'remote_flow_control_window'])
            o = s.call(which, sid)
            r.step(which, sid, o.brief())
            check(which, sid, o, stream_expectation(sid, which))
        elif op == 'ack':
            n = ch.pick([0, 1, 100, 70000, -1])
            target = ch.pick([sid, sid, 0, -3])
            # what the library itself says about the stream: StreamClosedError from a window query means "closed
            # and forgotten", however it came to be closed (also by a refused local call, K03)
            q = s.call('remote_flow_control_window', target) if target > 0 else None
            says_forgotten = q is not None and not q.ok and type(q.exc) is h2.exceptions.StreamClosedError
            o = s.call('acknowledge_received_data', n, target)
            r.step('acknowledge_received_data', n, target, o.brief())
            if (target in forgotten or says_forgotten) and n >= 0 and not o.ok and not m.closed:
                w.violate('acknowledge-on-forgotten-stream-raised:%s' % o.exc_name,
                          'stream %r (%s)' % (target, 'model' if target in forgotten else 'window query says closed'))
            if o.ok and target in forgotten:
                cleaned_target = True
            if not o.ok:
                check('acknowledge_received_data', target if target > 0 else None, o,
                      stream_expectation(target, 'ack') if target > 0 and n >= 0 and target not in forgotten else None)
        elif op == 'data_to_send':
            o = s.call('data_to_send', ch.pick([None, 0, 5, 10**6]))
            check('data_to_send', None, o)
        elif op == 'next-id':
            o = s.call('get_next_available_stream_id')
            check('get_next_available_stream_id', None, o)
        elif op == 'cleanup':
            s.c.open_inbound_streams
            s.c.open_outbound_streams
            for x, st in m.streams.items():
                if st.state == M.CLOSED and x not in unknown:
                    forgotten.add(x)
            r.step('cleanup', sorted(forgotten))
        elif op == 'peer-open':
            if client:
                cands = [x for x in sorted(m.streams) if x not in unknown and m.get(x).local and
                         m.get(x).can_recv() and not m.get(x).r_final]
                if cands:
                    w.recv_headers(ch.pick(cands), 'final', ch.chance(64))
            else:
                w.recv_headers(w.next_peer_id(), 'final', ch.chance(64))
        elif op == 'peer-close':
            cands = [x for x in sorted(m.streams) if x not in unknown and m.get(x).live()]
            if cands:
                x = ch.pick(cands)
                if m.get(x).can_recv() and m.get(x).r_final and not m.get(x).r_trailers and ch.bool():
                    w.recv_data(x, True)
                else:
                    w.recv_rst(x)
        elif op == 'peer-response':
            cands = [x for x in sorted(m.streams) if x not in unknown and m.get(x).can_recv() and m.get(x).r_final
                     and not m.get(x).r_trailers]
            if cands:
                w.recv_data(ch.pick(cands), False, n=ch.int(0, 200))
    # model-vs-library disagreements on received frames are C06's business, not C29's
    r.violations[:] = [(k, d) for k, d in r.violations if not k.startswith(('C29:recv:', 'C29:send:'))
                       or 'non-h2-exception' in k]
    r.nontrivial = cleaned_target or raise_after_success
    if cleaned_target:
        r.labels.add('call-on-cleaned-up-stream')
    if raise_after_success:
        r.labels.add('raise-after-success-on-same-stream')
    if s.out_problems:
        w.violate('malformed-output', repr(s.out_problems))
    return r


def _f16():
    s = Solo(True)
    s.start()
    s.call('send_headers', 1, REQ)
    keys = []
    for name, args in (('end_stream', (5,)), ('increment_flow_control_window', (10, 5))):
        o = s.call(name, *args)
        if not o.ok and not o.is_h2error():
            keys.append('C29:undocumented-exception:%s:%s' % (o.exc_name, name))
    return keys


def _f07():
    s = Solo(True)
    s.start()
    s.call('send_headers', 1, REQ)
    o = s.call('send_headers', 1, [], end_stream=True)
    return [] if (o.ok or o.is_h2error()) else ['C29:undocumented-exception:%s:send_headers' % o.exc_name]


def _f15():
    from .C02 import sized_headers
    s = Solo(True)
    s.start()
    o = s.call('send_headers', 1, sized_headers(None, Encoder(), list(REQ), 16384), priority_weight=5)
    bad = (not o.ok and not o.is_h2error()) or any(f.length > 16384 for f in o.frames)
    return ['C29:undocumented-exception:frame-filling-block'] if bad else []


def _f34():
    keys = []
    s = Solo(False)
    s.start()
    o = s.call('advertise_alternative_service', b'f' * 20000, origin=b'example.com')
    if (not o.ok and not o.is_h2error()) or (not o.ok and o.out):
        keys.append('C29:undocumented-exception:%s:advertise_alternative_service:origin' % o.exc_name)
    s = Solo(True)
    s.start()
    o = s.call('close_connection', 0, b'd' * 20000)
    if (not o.ok and not o.is_h2error()) or (not o.ok and o.out):
        keys.append('C29:undocumented-exception:%s:close_connection' % o.exc_name)
    return keys


def _f37():
    """HTTP2-Settings values that cannot be used: the call raises a documented exception and queues nothing."""
    import struct
    from ..drive import Endpoint
    keys = []
    for header in (_b64(b'\0\1\0\0\0'), b'AAE', _b64(struct.pack('>HI', 2, 2))):
        ep = Endpoint(False)
        o = ep.call('initiate_upgrade_connection', header)
        if o.ok or o.out or not isinstance(o.exc, (h2.exceptions.H2Error, ValueError)):
            keys.append('C29:raising-call-emitted:initiate_upgrade_connection')
    return keys


def _f38():
    """An unknown setting awaiting its acknowledgement: the settings mapping can still be walked."""
    from ..drive import Endpoint
    keys = []
    ep = Endpoint(False)
    ep.call('update_settings', {0x7f: 1})
    o = ep.call('initiate_connection')
    if not o.ok:
        keys.append('C29:undocumented-exception:%s:initiate_connection' % o.exc_name)
    try:
        dict(ep.c.local_settings)
    except KeyError:
        keys.append('C29:undocumented-exception:KeyError:iterating-settings')
    return keys


def _k05():
    """initiate_upgrade_connection on a client that has already opened stream 1."""
    from ..drive import Endpoint
    ep = Endpoint(True)
    o0 = ep.call('send_headers', 1, list(REQ))
    o = ep.call('initiate_upgrade_connection')
    if o0.ok and not o.ok and o.out:
        return ['C29:raising-call-emitted:initiate_upgrade_connection:StreamIDTooLowError']
    return []


FINDINGS = {'K05-upgrade-after-stream-1-in-use-queues-preamble': _k05,
            'F37-malformed-http2-settings-after-preamble-queued': _f37,
            'F38-pending-unknown-setting-breaks-settings-iteration': _f38,
            'F16-keyerror-end-stream-increment': _f16, 'F07-empty-header-list-indexerror': _f07,
            'F15-first-header-frame-overhead-not-reserved': _f15,
            'F34-oversize-goaway-or-altsvc-assertion-after-queuing': _f34}
