"""C01 Two h2 endpoints exchange every successful send faithfully."""
from ..choose import Chooser
from ..runner import Result
from .. import pair as P

ID = 'C01'
LEVEL = 'exploration'
ENGINE = 'E1 pair'
TECHNIQUE = ('property-based testing, stateful: model-driven programs of API calls on a client and a server joined '
             'by harness-owned byte pipes with generated chunking and interleaving; ledger oracle computed from the '
             'call arguments; metamorphic twin replay without the raising calls')
RULE = ('cases: programs of 10..60 steps (thorough: up to 150) over both endpoints after a completed handshake: '
        'requests, responses, informational responses, trailers, pushes (header lists from the grammar, dressed as '
        'str/bytes/mixed case/whitespace), data of 0..70000 bytes with and without padding, end_stream, resets with '
        'arbitrary codes, pings, priorities, window increments, acknowledgements of received data, settings updates, '
        'alt-svc, close_connection as the last call, and calls that must raise (unknown/closed/wrong-parity stream, '
        'non-conformant header list, invalid settings value, role-inappropriate call, bad increment, bad ping size, '
        'data beyond window/frame size), interleaved with deliveries of whole buffers, up to a frame boundary, '
        'mid-frame or of 1..12 bytes in either direction; final flush to quiescence. Oracle: receiver events == '
        'ledger of the successful calls (minus entries the receiver made moot by its own reset), no receive_data '
        'raises, raising calls emit nothing, twin replay without the raising calls gives identical outcomes for every '
        'other step. evaluations = executed steps; non-trivial = a raising call followed by successful traffic AND a '
        'delivery that splits a frame AND two streams alive at once; distinct by trace. About one message in five '
        'declares a content-length that the program then honours exactly (padding not counted); each endpoint runs '
        'with validate_inbound_headers / normalize_inbound_headers on or off')
ASSUMPTIONS = [
    'messages are HTTP-semantically consistent (no HEAD, 204, 304; a declared content-length is matched exactly '
    'by the payload the program then sends): C16 obliges the receiver to reject the others',
    'calls a state machine refuses on a live object are not generated (known finding K03, decided by C06); at most '
    'one update_settings per endpoint is outstanding (known finding K02, decided by C11); both counted under '
    'excluded_by_construction',
    'never-indexed markers of received header fields are not compared (C14 decides them)',
    'window increments and INITIAL_WINDOW_SIZE values stay small enough that no window can exceed 2^31-1',
]
TIERS = {'quick': {'cases': 6000, 'size': 700},
         'thorough': {'cases': 600000, 'size': 1800}}


def run_case(data):
    ch = Chooser(data)
    r = Result()
    # receiver-side switches (a quarter of the cases each): they change nothing for conformant traffic, except
    # that without normalize_inbound_headers the cookie fields arrive as they were sent
    bits = ch.u8()
    cfgs = {}
    norm_in = {}
    for side, shift in (('c', 0), ('s', 4)):
        b = (bits >> shift) & 15
        cfgs[side] = {'validate_inbound_headers': b & 3 != 3, 'normalize_inbound_headers': b & 12 != 12}
        norm_in[side] = cfgs[side]['normalize_inbound_headers']
    if bits & 0x33 == 0x33 or bits & 0xcc:
        r.labels.add('non-default-inbound-config')
    p = P.Pair(r, ID, cfg_c=cfgs['c'], cfg_s=cfgs['s'])
    p.norm_in = norm_in
    p.handshake(ch)
    if not p.stop:
        nsteps = ch.int(10, 60) if len(data) <= 800 else ch.int(10, 150)
        P.gen_program(ch, p, nsteps)
    if not r.violations:
        bad = P.twin_check(p, lambda: P.RawPair(cfg_c=cfgs['c'], cfg_s=cfgs['s']))
        if bad:
            r.violate('%s:%s' % (ID, bad[0]), bad[1])
    r.nontrivial = {'delivery-splits-a-frame', 'raising-call-then-successful-traffic',
                    'two-streams-alive'} <= r.labels
    return r


# ---------------------------------------------------------------------------
# scripted minimal reproductions of the fixed findings

REQ = [(':method', 'POST'), (':scheme', 'https'), (':authority', 'example.com'), (':path', '/')]


def _pair():
    p = P.RawPair()
    for side in 'cs':
        p.call(side, 'initiate_connection', (), {})
    for _ in range(3):
        for frm in 'cs':
            p.deliver(frm, len(p.pipe[frm]))
    return p


def _flush(p, frm):
    return p.deliver(frm, len(p.pipe[frm]))[0]


def _f30():
    """Empty DATA + END_STREAM while INITIAL_WINDOW_SIZE shrank the stream window below zero."""
    p = _pair()
    p.call('c', 'send_headers', (1, REQ), {})
    p.call('c', 'send_data', (1, b'hello'), {})
    _flush(p, 'c')
    p.call('s', 'update_settings', ({4: 0},), {})
    _flush(p, 's')
    _flush(p, 'c')          # the ACK: the server's window for stream 1 is now -5
    o = p.call('c', 'end_stream', (1,), {})
    if not o.ok:
        return []
    o = _flush(p, 'c')
    return [] if o.ok else ['C01:receive_data-raised:%s:code=%s' % (o.exc_name, o.code)]


def _f31():
    """(':Status', '100') is sent as an informational response but recorded as the final one."""
    p = _pair()
    p.call('c', 'send_headers', (1, REQ), {})
    _flush(p, 'c')
    p.call('s', 'send_headers', (1, [(':Status', '100')]), {})
    o = p.call('s', 'send_headers', (1, [(':status', '200')]), {})
    if not o.ok:
        return ['C01:events-differ:want=ResponseReceived:got=nothing']
    p.call('s', 'send_data', (1, b'body'), {'end_stream': True})
    o = _flush(p, 's')
    if not o.ok:
        return ['C01:receive_data-raised:%s:code=%s' % (o.exc_name, o.code)]
    names = [e[0] for e in o.events]
    want = ['InformationalResponseReceived', 'ResponseReceived', 'DataReceived', 'StreamEnded']
    return [] if names == want else ['C01:events-differ:want=ResponseReceived:got=%s' % (names[1:2] or ['nothing'])[0]]


def _f32():
    """Response HEADERS crossing our reset of a cleaned-up stream, with our MAX_CONCURRENT_STREAMS at 0."""
    p = _pair()
    p.call('c', 'update_settings', ({3: 0},), {})
    _flush(p, 'c')
    _flush(p, 's')
    p.call('c', 'send_headers', (1, REQ), {})
    _flush(p, 'c')
    p.call('s', 'send_headers', (1, [(':status', '200')]), {})
    p.call('c', 'reset_stream', (1,), {})
    p.call('c', 'send_headers', (3, REQ), {})      # counting open streams cleans stream 1 up
    o = _flush(p, 's')
    if not o.ok:
        return ['C01:receive_data-raised:%s:code=%s' % (o.exc_name, o.code)]
    return ['C01:unexpected-event:%s' % o.events[0][0]] if o.events else []


FINDINGS = {'F30-empty-data-on-negative-window': _f30,
            'F31-informational-classified-before-normalisation': _f31,
            'F32-headers-on-cleaned-up-stream-counted-as-new': _f32}
