"""C10 Concurrent-stream limits are respected and enforced."""
from .. import wire, model as M
from ..choose import Chooser
from ..runner import Result
from ..prog import World
from ..solo import Solo, REQ, RESP

ID = 'C10'
LEVEL = 'exploration'
ENGINE = 'E2 solo'
TECHNIQUE = ('property-based testing: generated open/close/push/limit-change histories vs. a reference count of '
             'open and half-closed streams per initiator')
RULE = ('cases: histories (8..50 steps) of stream openings in both directions, closings by END_STREAM in each '
        'direction and by RST_STREAM from each side, pushes and responses on promised streams, '
        'MAX_CONCURRENT_STREAMS changes by the peer (applied at once) and locally (applied at the ACK, injected at a '
        'later step) with limits in {0,1,2,3,100}, a local limit of 1, 2 or 150 installed as initial settings before the connection starts, final DATA frames refused for their size, and open_outbound_streams / open_inbound_streams queries (which '
        'also trigger clean-up); non-trivial = a count reached its limit and later dropped again; distinct by trace')
ASSUMPTIONS = ['local SETTINGS frames in this check change only MAX_CONCURRENT_STREAMS after the handshake ACK '
               '(C11 covers acknowledgement matching)']
TIERS = {'quick': {'cases': 4000, 'size': 300},
         'thorough': {'cases': 900000, 'size': 400}}
LIMITS = [0, 1, 2, 3, 100]


def run_case(data):
    ch = Chooser(data)
    r = Result()
    client = ch.bool()
    initial = ch.pick([None, None, None, {wire.S_MAX_CONCURRENT_STREAMS: 1}, {wire.S_MAX_CONCURRENT_STREAMS: 2},
                       {wire.S_MAX_CONCURRENT_STREAMS: 150}])
    w = World(client, r, 'C10', local_initial=initial)
    m = w.m
    if initial:
        r.labels.add('local-limit-from-initial-settings')
    pending_local = []
    hit_limit = dropped_after = False
    r.step('role', 'client' if client else 'server')
    # start with a small limit most of the time
    first = ch.pick([1, 2, 3, 2, 100])
    w.s.feed(wire.settings([(wire.S_MAX_CONCURRENT_STREAMS, first)]))
    m.peer_max_streams = first
    r.step('peer limit', first)
    for stepno in range(ch.int(8, 50)):
        if w.stop or r.violations:
            break
        usable = sorted(s for s in m.streams if s not in w.tainted)
        op = ch.weighted([(8, 'open-local'), (8, 'open-peer'), (4, 'local-end'), (4, 'peer-end'), (3, 'respond'),
                          (2, 'peer-limit'), (2, 'local-limit'), (2, 'local-ack'), (3, 'query'), (2, 'wu-overflow'),
                          (3, 'late-headers'), (2, 'info'), (2, 'refused-open'), (2, 'oversize-end')])
        if op == 'open-local':
            if client:
                w.send_headers(w.next_local_id(), 'final', ch.chance(48))
            else:
                parents = [s for s in usable if s % 2 == 1 and m.get(s).state in (M.OPEN, M.HC_REMOTE)]
                if not parents:
                    continue
                w.push(ch.pick(parents), w.next_local_id())
        elif op == 'open-peer':
            if not client:
                w.recv_headers(w.next_peer_id(), 'final', ch.chance(48))
            else:
                parents = [s for s in usable if s % 2 == 1 and m.get(s).state in (M.OPEN, M.HC_LOCAL)]
                if not parents:
                    continue
                w.recv_push(ch.pick(parents), w.next_peer_id())
        elif op == 'respond':
            # HEADERS on a promised stream (either direction) or a response on a request stream
            res_l = [s for s in usable if m.get(s).state == M.RES_LOCAL]
            res_r = [s for s in usable if m.get(s).state == M.RES_REMOTE]
            normal = [s for s in usable if m.headers_position(m.get(s)) == 'response' and
                      m.get(s).state != M.RES_LOCAL]
            pool = [('l', s) for s in res_l] + [('r', s) for s in res_r] + [('n', s) for s in normal]
            if not pool:
                continue
            how, sid = ch.pick(pool)
            if how == 'r':
                w.recv_headers(sid, 'final', ch.chance(64))
            else:
                w.send_headers(sid, 'final', ch.chance(64))
        elif op == 'local-end':
            cands = [s for s in usable if m.get(s).can_send() and m.get(s).s_final] + \
                [s for s in usable if m.get(s).state in (M.RES_LOCAL, M.RES_REMOTE, M.HC_LOCAL)]
            if not cands:
                continue
            sid = ch.pick(cands)
            if m.get(sid).can_send() and m.get(sid).s_final and ch.bool():
                w.end_stream(sid)
            else:
                w.reset(sid)
        elif op == 'peer-end':
            cands = [s for s in usable if m.get(s).live()]
            if not cands:
                continue
            sid = ch.pick(cands)
            if m.get(sid).can_recv() and m.get(sid).r_final and not m.get(sid).r_trailers and ch.bool():
                w.recv_data(sid, True)
            else:
                w.recv_rst(sid)
        elif op == 'refused-open':
            # an opening send that raises (invalid header list, or text that cannot be encoded) opens nothing:
            # the id stays unused and the next attempt on it meets the limit check like any other
            bad = ch.pick([[(b':method', b'GET'), (b':scheme', b'https'), (b':authority', b'example.com'), (b'x', b'1')],
                           list(REQ) + [(b'te', b'chunked')], list(REQ) + [('x-bad-text', 'v\udcff')]])
            if client:
                sid = w.next_local_id()
                if m.send_headers_verdict(sid, 'final', False)[0] != M.PERMIT:
                    continue
                if ch.chance(64):
                    # a valid list with a priority weight outside 1..256: refused just the same, opens nothing
                    o = w.s.call('send_headers', sid, list(REQ), priority_weight=ch.pick([0, 0, 257]))
                else:
                    o = w.s.call('send_headers', sid, bad)
            else:
                # the response on a promised stream (the moment it starts to count)
                res_l = [s for s in usable if m.get(s).state == M.RES_LOCAL]
                if not res_l:
                    continue
                sid = ch.pick(res_l)
                if m.send_headers_verdict(sid, 'final', False)[0] != M.PERMIT:
                    continue
                o = w.s.call('send_headers', sid, [(b':status', b'200'), ('x-bad-text', 'v\udcff')])
            r.step('refused opening send', sid, o.brief())
            if o.ok:
                w.violate('invalid-header-list-accepted', repr(o.frames)[:100])
                break
            if o.out:
                w.violate('refused-open-emitted', o.out.hex()[:40])
            out_n, in_n = w.s.c.open_outbound_streams, w.s.c.open_inbound_streams
            if (out_n, in_n) != (m.open_count(True), m.open_count(False)):
                w.violate('refused-open-changed-the-count', 'library %d/%d model %d/%d' %
                          (out_n, in_n, m.open_count(True), m.open_count(False)))
            r.labels.add('refused-open')
        elif op == 'oversize-end':
            # a final DATA frame that is refused for its size (larger than the peer's MAX_FRAME_SIZE or than the
            # window) ends nothing: the stream still counts
            cands = [s for s in usable if m.get(s).can_send() and m.get(s).s_final and
                     m.send_data_verdict(s, True)[0] == M.PERMIT]
            if not cands:
                continue
            sid = ch.pick(cands)
            n = ch.pick([16385, 20000, 65535, 70000])
            o = w.s.call('send_data', sid, b'x' * n, end_stream=True, pad_length=ch.pick([None, None, 10]))
            r.step('oversize final DATA', sid, n, o.brief())
            if o.ok:
                w.violate('oversize-data-accepted', '%d bytes' % n)
                break
            if o.exc_name not in ('FrameTooLargeError', 'FlowControlError'):
                w.violate('oversize-data-refused-with:%s' % o.exc_name, repr(o.exc)[:100])
                break
            if o.out:
                w.violate('refused-data-emitted', o.out.hex()[:40])
            out_n, in_n = w.s.c.open_outbound_streams, w.s.c.open_inbound_streams
            if (out_n, in_n) != (m.open_count(True), m.open_count(False)):
                w.violate('refused-final-data-changed-the-count', 'library %d/%d model %d/%d' %
                          (out_n, in_n, m.open_count(True), m.open_count(False)))
            r.labels.add('oversize-final-data-refused')
        elif op == 'late-headers':
            # HEADERS the peer sent before it saw our reset of that stream: no new stream, so no limit applies
            cands = [s for s in usable if m.get(s).state == M.CLOSED and m.get(s).closed_by == 'send-rst' and
                     not m.get(s).local or (m.get(s).state == M.CLOSED and m.get(s).closed_by == 'send-rst' and client)]
            if not cands:
                continue
            sid = ch.pick(cands)
            if ch.bool():
                _ = w.s.c.open_inbound_streams     # the closed stream may or may not still be in the table
            w.recv_headers(sid, ch.pick(['final', 'trailers']), ch.bool())
            r.labels.add('late-headers-on-reset-stream')
        elif op == 'info':
            # an informational response before the final one changes no count
            if client:
                cands = [s for s in usable if m.get(s).local and m.get(s).can_recv() and not m.get(s).r_final]
                if cands:
                    w.recv_headers(ch.pick(cands), 'info', False)
            else:
                cands = [s for s in usable if m.headers_position(m.get(s)) == 'response' and
                         m.get(s).state != M.RES_LOCAL]
                if cands:
                    w.send_headers(ch.pick(cands), 'info', False)
            r.labels.add('informational')
        elif op == 'wu-overflow':
            # one more way for a stream to close: the library itself resets it (stream error)
            cands = [s for s in usable if m.get(s).live() and M.ACCEPT in m.recv_window_update_verdict(s)]
            if not cands:
                continue
            w.recv_window_update_overflow(ch.pick(cands))
            r.labels.add('closed-by-stream-error')
        elif op == 'peer-limit':
            v = ch.pick(LIMITS)
            o = w.s.feed(wire.settings([(wire.S_MAX_CONCURRENT_STREAMS, v)]))
            r.step('peer limit', v, o.brief())
            if not o.ok:
                w.violate('peer-limit-change-rejected', repr(o.exc))
                break
            m.peer_max_streams = v
        elif op == 'local-limit':
            if len(pending_local) >= 2:
                continue
            v = ch.pick(LIMITS)
            o = w.s.call('update_settings', {wire.S_MAX_CONCURRENT_STREAMS: v})
            r.step('update_settings limit', v, o.brief())
            if not o.ok:
                w.violate('local-limit-change-refused', repr(o.exc))
                break
            pending_local.append(v)
        elif op == 'local-ack':
            if not pending_local:
                continue
            v = pending_local.pop(0)
            o = w.s.feed(wire.settings(ack=True))
            r.step('ack of local limit', v, o.brief())
            if not o.ok:
                w.violate('settings-ack-rejected', repr(o.exc))
                break
            m.local_max_streams = v
        else:
            out_n = w.s.c.open_outbound_streams
            in_n = w.s.c.open_inbound_streams
            want_out, want_in = m.open_count(True), m.open_count(False)
            r.step('query', 'outbound', out_n, 'inbound', in_n, 'model', want_out, want_in)
            if out_n != want_out:
                w.violate('open_outbound_streams-differs', 'library %d model %d' % (out_n, want_out))
            if in_n != want_in:
                w.violate('open_inbound_streams-differs', 'library %d model %d' % (in_n, want_in))
        # bookkeeping for the non-trivial rule
        at_limit = (m.peer_max_streams is not None and m.open_count(True) >= m.peer_max_streams > 0) or \
            (m.open_count(False) >= m.local_max_streams > 0)
        if at_limit:
            hit_limit = True
        elif hit_limit:
            dropped_after = True
    if w.s.out_problems:
        w.violate('malformed-output', repr(w.s.out_problems))
    r.nontrivial = hit_limit and dropped_after
    if hit_limit:
        r.labels.add('limit-reached')
    return r


def _f27():
    keys = []
    s = Solo(False)
    s.start([(wire.S_MAX_CONCURRENT_STREAMS, 1)])
    s.feed(wire.headers(1, s.hblock(REQ)))
    s.call('push_stream', 1, 2, REQ)
    s.call('push_stream', 1, 4, REQ)
    a = s.call('send_headers', 2, RESP)
    b = s.call('send_headers', 4, RESP)
    if a.ok and b.ok:
        keys.append('C10:send:headers:final:server:reserved-local:refused-by-rfc-but-accepted:too-many-streams')
    c = Solo(True)
    c.start()
    c.call('update_settings', {wire.S_MAX_CONCURRENT_STREAMS: 1})
    c.feed(wire.settings(ack=True))
    c.call('send_headers', 1, REQ)
    c.feed(wire.push_promise(1, 2, c.hblock(REQ)) + wire.push_promise(1, 4, c.hblock(REQ)))
    a = c.feed(wire.headers(2, c.hblock(RESP)))
    b = c.feed(wire.headers(4, c.hblock(RESP))) if a.ok else a
    if a.ok and b.ok and not any(f.type == wire.RST_STREAM for f in b.frames):
        keys.append('C10:recv:headers:final:client:reserved-remote:got=accept')
    return keys


FINDINGS = {'F27-promised-streams-never-counted': _f27}
