"""C26 Each received PING is answered exactly once with the same payload."""
from .. import wire
from ..choose import Chooser
from ..runner import Result
from ..drive import h2
from ..solo import Solo, REQ, RESP

ID = 'C26'
LEVEL = 'exploration'
TECHNIQUE = 'property-based testing: generated frame batches vs. ping/ack reference model'
RULE = ('cases: byte-string decoded into a role, 1..6 receive_data batches of PING / PING ACK '
        'frames with drawn payloads interleaved with SETTINGS, WINDOW_UPDATE, PRIORITY, unknown '
        'frames, HEADERS and DATA, each batch delivered in drawn chunks, and ping() calls with '
        '0..16-byte payloads; non-trivial = some receive_data batch holds >= 2 PINGs with another '
        'frame between them; distinct = distinct concrete traces (blake2 of the trace)')
ASSUMPTIONS = ['peer frames are built by the harness codec wire.py']
TIERS = {'quick': {'cases': 6000, 'size': 260},
         'thorough': {'cases': 1200000, 'size': 400}}


def late_start_case(ch, r):
    """The peer speaks first: its SETTINGS and a PING are received (and ping() may be called) before the
    application calls initiate_connection().  Whatever the library reported or accepted at that point it still
    owes: the PING ACK for a reported PingReceived and the PING of a successful ping() reach the output exactly
    once.  (Nothing is demanded if the library refuses to do either before the connection is started.)"""
    from ..drive import make_conn, norm_event
    client = ch.bool()
    c = make_conn(client)
    theirs = b'their' + bytes([ch.u8() | 1, 2, 4])
    mine = b'mine' + bytes([ch.u8() & 0xfe, 1, 3, 5])
    drain_early = ch.bool()       # the application reads data_to_send() after every step, or only at the end
    total = b''

    def step(fn, *a):
        nonlocal total
        try:
            res = (True, fn(*a))
        except Exception as e:   # noqa: BLE001 - a refusal before the start is allowed; it only lifts the demand
            res = (False, e)
        if drain_early:
            total += c.data_to_send()
        return res

    ok1, evs = step(c.receive_data, (b'' if client else wire.PREFACE) + wire.settings() + wire.ping(theirs))
    reported = ok1 and [norm_event(e) for e in evs if type(e).__name__ == 'PingReceived'] == [('PingReceived', theirs)]
    ok2 = step(c.ping, mine)[0] if ch.bool() else None
    how = 'initiate_upgrade_connection' if client and ch.chance(64) else 'initiate_connection'
    ok3 = step(getattr(c, how))[0]
    total += c.data_to_send()
    r.step('late start', 'client' if client else 'server', 'drained after every step' if drain_early else
           'drained at the end', 'PING received first', ok1, 'ping() first', ok2, how, ok3)
    if reported and total.count(wire.ping(theirs, ack=True)) != 1:
        r.violate('C26:reported-ping-not-acknowledged-once', '%d acknowledgements in %s' % (
            total.count(wire.ping(theirs, ack=True)), total.hex()[:120]))
    if ok2 and total.count(wire.ping(mine)) != 1:
        r.violate('C26:ping-call-not-emitted-once', '%d PING frames in %s' % (total.count(wire.ping(mine)),
                                                                               total.hex()[:120]))
    r.nontrivial = reported
    r.labels.add('peer-speaks-before-initiate_connection')
    return r


def undrained_case(ch, r):
    """The application does not read data_to_send() after every call: PINGs arrive in several receive_data calls,
    output is read partially, possibly thrown away (clear_outbound_data_buffer), more PINGs arrive, a ping() is
    made, the connection may die of a protocol error - and only then is the rest read.  Every PING reported since
    the last clear is acknowledged exactly once, in order, in what the application ends up reading."""
    from ..drive import make_conn, norm_event
    client = ch.bool()
    c = make_conn(client)
    c.initiate_connection()
    c.receive_data((b'' if client else wire.PREFACE) + wire.settings() + wire.settings(ack=True))
    c.data_to_send()
    seq = [0]

    def pings(k):
        ps = []
        for _ in range(k):
            seq[0] += 1
            ps.append(b'pg' + bytes([seq[0], ch.u8(), 7, 7, 7, 7]))
        evs = c.receive_data(b''.join(wire.ping(p) for p in ps))
        got = [norm_event(e)[1] for e in evs if type(e).__name__ == 'PingReceived']
        if got != ps:
            r.violate('C26:ping-events-differ', 'want %r got %r' % (ps, got))
        return ps

    read = b''
    owed = pings(ch.int(1, 3))
    if ch.bool():
        read += c.data_to_send(ch.pick([1, 9, 17, 20, 34]))
        r.labels.add('partial-read')
    cleared = ch.chance(100)
    if cleared:
        c.clear_outbound_data_buffer()
        owed = []
        read = b''
        r.labels.add('cleared-in-between')
    owed += pings(ch.int(1, 3))
    mine = None
    if ch.bool():
        mine = b'mine' + bytes([ch.u8(), 1, 2, 3])
        c.ping(mine)
    died = None
    if ch.chance(100):
        try:
            c.receive_data(ch.pick([wire.window_update(0, 0), wire.raw(wire.PING, 0, 0, b'short'),
                                    wire.data(99, b'x'), wire.raw(wire.SETTINGS, 0, 0, b'\0')]))
        except Exception as e:   # noqa: BLE001
            died = type(e).__name__
        r.labels.add('connection-error-before-the-read')
    read += c.data_to_send()
    # (a partial read followed by the rest concatenates to a sequence of whole frames again)
    frames = wire.parse_all(read)[0]
    acks = [f.f['data'] for f in frames if f.type == wire.PING and f.f.get('ack')]
    r.step('undrained', 'client' if client else 'server', 'owed', len(owed), 'cleared', cleared, 'own ping',
           mine is not None, 'died', died, 'acks read', len(acks))
    if acks != owed:
        r.violate('C26:acks-differ', 'want %r got %r (cleared=%r, died=%r)' % (
            [p.hex() for p in owed], [a.hex() for a in acks], cleared, died))
    if mine is not None and [f.f['data'] for f in frames if f.type == wire.PING and not f.f.get('ack')] != [mine]:
        r.violate('C26:ping-call-not-emitted-once', read.hex()[:80])
    r.nontrivial = len(owed) >= 2
    r.labels.add('output-not-read-after-every-call')
    return r


def run_case(data):
    ch = Chooser(data)
    r = Result()
    if ch.chance(16):
        return late_start_case(ch, r)
    if ch.chance(24):
        return undrained_case(ch, r)
    client = ch.bool()
    s = Solo(client)
    s.start()
    next_sid = 1
    open_sids = []
    r.step('role', 'client' if client else 'server')
    nbatches = ch.int(1, 6)
    for _ in range(nbatches):
        if ch.chance(16):
            # something that is not an 8-byte string at all, though bytes() of it would have eight bytes
            odd = ch.pick([8, list(range(8)), 'abcdefgh', range(8)])
            o = s.call('ping', odd)
            r.step('ping()', repr(odd), o.brief())
            if o.ok or not isinstance(o.exc, (ValueError, TypeError)):
                r.violate('C26:ping-call-non-bytes-accepted:%s' % type(odd).__name__, o.brief())
            if o.out:
                r.violate('C26:ping-call-refused-but-emitted', o.out.hex())
            continue
        if ch.chance(10):
            # another call is refused in between (debug data that does not fit a GOAWAY frame): the connection is
            # what it was, pings keep being answered and sent
            o = s.call('close_connection', 0, b'd' * ch.pick([16377, 20000]))
            r.step('close_connection with oversize debug data', o.brief())
            if o.ok:
                r.violate('C26:oversize-goaway-accepted', '')
                return r
            if o.out:
                r.violate('C26:refused-call-emitted', o.out.hex()[:40])
            r.labels.add('refused-close_connection-in-between')
            continue
        if ch.chance(64):
            # local ping() call
            n = ch.pick([8, 0, 7, 9, 16, 1])
            payload = ch.bytes(n)
            o = s.call('ping', payload)
            r.step('ping()', payload, o.brief())
            pings = [f for f in o.frames if f.type == wire.PING]
            if n == 8:
                if not o.ok:
                    r.violate('C26:ping-call-refused:%s' % o.exc_name, payload.hex())
                elif len(o.frames) != 1 or len(pings) != 1 or pings[0].f['ack'] or \
                        pings[0].f['data'] != payload or pings[0].problems:
                    r.violate('C26:ping-call-wrong-frames', repr(o.frames))
            else:
                if o.ok or not isinstance(o.exc, ValueError):
                    r.violate('C26:ping-call-bad-length-accepted:len=%d:%s' % (n, o.brief()))
                if o.out:
                    r.violate('C26:ping-call-refused-but-emitted', o.out.hex())
            continue
        # a batch of frames for one receive_data call (possibly chunked)
        nframes = ch.int(1, 8)
        buf = b''
        expect_events = []
        expect_acks = []
        kinds = []
        for _ in range(nframes):
            k = ch.weighted([(6, 'ping'), (3, 'pingack'), (1, 'settings'), (1, 'wu'),
                             (1, 'prio'), (1, 'unknown'), (1, 'stream'), (1, 'settingsack')])
            kinds.append(k)
            if k == 'ping':
                p = ch.bytes(8) if ch.bool() else bytes([ch.u8()]) * 8
                buf += wire.ping(p)
                expect_events.append(('PingReceived', p))
                expect_acks.append(p)
            elif k == 'pingack':
                p = ch.bytes(8)
                buf += wire.ping(p, ack=True)
                expect_events.append(('PingAckReceived', p))
            elif k == 'settings':
                buf += wire.settings([(wire.S_MAX_CONCURRENT_STREAMS, ch.int(50, 60))])
            elif k == 'settingsack':
                pass   # ACK without outstanding SETTINGS is tolerated? keep traffic valid: skip
            elif k == 'wu':
                buf += wire.window_update(0, ch.int(1, 1000))
            elif k == 'prio':
                buf += wire.priority(ch.int(1, 99), 0, ch.int(1, 256))
            elif k == 'unknown':
                buf += wire.raw(ch.int(0x0b, 0xff), ch.u8(), ch.int(0, 9), ch.bytes(ch.int(0, 12)))
            elif k == 'stream':
                if not client:
                    buf += wire.headers(next_sid, s.hblock(REQ), end_stream=ch.bool())
                    next_sid += 2
        # chunking
        chunks = []
        if ch.chance(128) and len(buf) > 1:
            ncuts = ch.int(1, 4)
            cuts = sorted(set(ch.int(1, len(buf) - 1) for _ in range(ncuts)))
            prev = 0
            for c in cuts:
                chunks.append(buf[prev:c])
                prev = c
            chunks.append(buf[prev:])
        else:
            chunks = [buf]
        got_events = []
        got_frames = []
        reuse = ch.pick([None, None, None, 'memoryview', 'bytearray']) if len(chunks) > 1 else None
        for c in chunks:
            if reuse:
                # chunks handed over in a buffer that the caller recycles right after the call
                ba = bytearray(c)
                o = s.feed(memoryview(ba) if reuse == 'memoryview' else ba)
                ba[:] = b'\xee' * len(ba)
            else:
                o = s.feed(c)
            if not o.ok:
                r.violate('C26:valid-batch-rejected:%s' % o.exc_name, repr(o.exc))
                r.step('recv', kinds, [len(c) for c in chunks], o.brief())
                return r
            got_events += [e for e in o.events if e[0] in ('PingReceived', 'PingAckReceived')]
            got_frames += o.frames
            # applications tell events apart with isinstance(): an acknowledgement must not pass for a ping,
            # nor a ping for an acknowledgement
            for e in o.raw_events:
                if isinstance(e, h2.events.PingReceived) and isinstance(e, h2.events.PingAckReceived):
                    r.violate('C26:event-is-both-PingReceived-and-PingAckReceived', type(e).__name__)
        r.step('recv', kinds, [len(c) for c in chunks], buf)
        if got_events != expect_events:
            r.violate('C26:ping-events-differ', 'want %r got %r' % (expect_events, got_events))
        acks = [f for f in got_frames if f.type == wire.PING]
        if any((not f.f['ack']) or f.problems or f.stream_id != 0 for f in acks):
            r.violate('C26:answer-not-a-wellformed-ack', repr(acks))
        if [f.f['data'] for f in acks] != expect_acks:
            r.violate('C26:acks-differ', 'want %r got %r' % (
                [p.hex() for p in expect_acks], [f.f['data'].hex() for f in acks]))
        # non-trivial: two pings with another frame kind between them
        idx = [i for i, k in enumerate(kinds) if k == 'ping']
        if len(idx) >= 2 and any(kinds[j] not in ('ping', 'settingsack')
                                 for j in range(idx[0] + 1, idx[-1])):
            r.nontrivial = True
            r.labels.add('multi-ping-batch')
        if len(chunks) > 1:
            r.labels.add('chunked')
    if s.out_problems:
        r.violate('C26:malformed-output', repr(s.out_problems))
    return r
