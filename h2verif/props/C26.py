"""C26 Each received PING is answered exactly once with the same payload."""
from .. import wire
from ..choose import Chooser
from ..runner import Result
from ..drive import h2
from ..solo import Solo, REQ, RESP

ID = 'C26'
LEVEL = 'exploration'
TECHNIQUE = 'property-based testing: generated frame batches vs. ping/ack reference model'
RULE = ('cases: byte-string decoded into a role, 1..6 receive_data batches of PING / PING ACK '
        'frames with drawn payloads interleaved with SETTINGS, WINDOW_UPDATE, PRIORITY, unknown '
        'frames, HEADERS and DATA, each batch delivered in drawn chunks, and ping() calls with '
        '0..16-byte payloads; non-trivial = some receive_data batch holds >= 2 PINGs with another '
        'frame between them; distinct = distinct concrete traces (blake2 of the trace)')
ASSUMPTIONS = ['peer frames are built by the harness codec wire.py']
TIERS = {'quick': {'cases': 6000, 'size': 260},
         'thorough': {'cases': 1200000, 'size': 400}}


def run_case(data):
    ch = Chooser(data)
    r = Result()
    client = ch.bool()
    s = Solo(client)
    s.start()
    next_sid = 1
    open_sids = []
    r.step('role', 'client' if client else 'server')
    nbatches = ch.int(1, 6)
    for _ in range(nbatches):
        if ch.chance(16):
            # something that is not an 8-byte string at all, though bytes() of it would have eight bytes
            odd = ch.pick([8, list(range(8)), 'abcdefgh', range(8)])
            o = s.call('ping', odd)
            r.step('ping()', repr(odd), o.brief())
            if o.ok or not isinstance(o.exc, (ValueError, TypeError)):
                r.violate('C26:ping-call-non-bytes-accepted:%s' % type(odd).__name__, o.brief())
            if o.out:
                r.violate('C26:ping-call-refused-but-emitted', o.out.hex())
            continue
        if ch.chance(64):
            # local ping() call
            n = ch.pick([8, 0, 7, 9, 16, 1])
            payload = ch.bytes(n)
            o = s.call('ping', payload)
            r.step('ping()', payload, o.brief())
            pings = [f for f in o.frames if f.type == wire.PING]
            if n == 8:
                if not o.ok:
                    r.violate('C26:ping-call-refused:%s' % o.exc_name, payload.hex())
                elif len(o.frames) != 1 or len(pings) != 1 or pings[0].f['ack'] or \
                        pings[0].f['data'] != payload or pings[0].problems:
                    r.violate('C26:ping-call-wrong-frames', repr(o.frames))
            else:
                if o.ok or not isinstance(o.exc, ValueError):
                    r.violate('C26:ping-call-bad-length-accepted:len=%d:%s' % (n, o.brief()))
                if o.out:
                    r.violate('C26:ping-call-refused-but-emitted', o.out.hex())
            continue
        # a batch of frames for one receive_data call (possibly chunked)
        nframes = ch.int(1, 8)
        buf = b''
        expect_events = []
        expect_acks = []
        kinds = []
        for _ in range(nframes):
            k = ch.weighted([(6, 'ping'), (3, 'pingack'), (1, 'settings'), (1, 'wu'),
                             (1, 'prio'), (1, 'unknown'), (1, 'stream'), (1, 'settingsack')])
            kinds.append(k)
            if k == 'ping':
                p = ch.bytes(8) if ch.bool() else bytes([ch.u8()]) * 8
                buf += wire.ping(p)
                expect_events.append(('PingReceived', p))
                expect_acks.append(p)
            elif k == 'pingack':
                p = ch.bytes(8)
                buf += wire.ping(p, ack=True)
                expect_events.append(('PingAckReceived', p))
            elif k == 'settings':
                buf += wire.settings([(wire.S_MAX_CONCURRENT_STREAMS, ch.int(50, 60))])
            elif k == 'settingsack':
                pass   # ACK without outstanding SETTINGS is tolerated? keep traffic valid: skip
            elif k == 'wu':
                buf += wire.window_update(0, ch.int(1, 1000))
            elif k == 'prio':
                buf += wire.priority(ch.int(1, 99), 0, ch.int(1, 256))
            elif k == 'unknown':
                buf += wire.raw(ch.int(0x0b, 0xff), ch.u8(), ch.int(0, 9), ch.bytes(ch.int(0, 12)))
            elif k == 'stream':
                if not client:
                    buf += wire.headers(next_sid, s.hblock(REQ), end_stream=ch.bool())
                    next_sid += 2
        # chunking
        chunks = []
        if ch.chance(128) and len(buf) > 1:
            ncuts = ch.int(1, 4)
            cuts = sorted(set(ch.int(1, len(buf) - 1) for _ in range(ncuts)))
            prev = 0
            for c in cuts:
                chunks.append(buf[prev:c])
                prev = c
            chunks.append(buf[prev:])
        else:
            chunks = [buf]
        got_events = []
        got_frames = []
        reuse = ch.pick([None, None, None, 'memoryview', 'bytearray']) if len(chunks) > 1 else None
        for c in chunks:
            if reuse:
                # chunks handed over in a buffer that the caller recycles right after the call
                ba = bytearray(c)
                o = s.feed(memoryview(ba) if reuse == 'memoryview' else ba)
                ba[:] = b'\xee' * len(ba)
            else:
                o = s.feed(c)
            if not o.ok:
                r.violate('C26:valid-batch-rejected:%s' % o.exc_name, repr(o.exc))
                r.step('recv', kinds, [len(c) for c in chunks], o.brief())
                return r
            got_events += [e for e in o.events if e[0] in ('PingReceived', 'PingAckReceived')]
            got_frames += o.frames
            # applications tell events apart with isinstance(): an acknowledgement must not pass for a ping,
            # nor a ping for an acknowledgement
            for e in o.raw_events:
                if isinstance(e, h2.events.PingReceived) and isinstance(e, h2.events.PingAckReceived):
                    r.violate('C26:event-is-both-PingReceived-and-PingAckReceived', type(e).__name__)
        r.step('recv', kinds, [len(c) for c in chunks], buf)
        if got_events != expect_events:
            r.violate('C26:ping-events-differ', 'want %r got %r' % (expect_events, got_events))
        acks = [f for f in got_frames if f.type == wire.PING]
        if any((not f.f['ack']) or f.problems or f.stream_id != 0 for f in acks):
            r.violate('C26:answer-not-a-wellformed-ack', repr(acks))
        if [f.f['data'] for f in acks] != expect_acks:
            r.violate('C26:acks-differ', 'want %r got %r' % (
                [p.hex() for p in expect_acks], [f.f['data'].hex() for f in acks]))
        # non-trivial: two pings with another frame kind between them
        idx = [i for i, k in enumerate(kinds) if k == 'ping']
        if len(idx) >= 2 and any(kinds[j] not in ('ping', 'settingsack')
                                 for j in range(idx[0] + 1, idx[-1])):
            r.nontrivial = True
            r.labels.add('multi-ping-batch')
        if len(chunks) > 1:
            r.labels.add('chunked')
    if s.out_problems:
        r.violate('C26:malformed-output', repr(s.out_problems))
    return r
