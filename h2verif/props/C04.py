"""C04 Inbound flow control is enforced exactly at the advertised windows."""
from .. import inflow

ID = 'C04'
LEVEL = 'exploration'
ENGINE = 'E2 solo'
TECHNIQUE = 'property-based testing: generated histories vs. an advertised-window reference model'
RULE = ('cases: histories (4..40 steps) over up to 8 streams of injected DATA (fits / exactly fits / overruns '
        'by one, padded), increment_flow_control_window (valid, filling to 2^31-1, overflowing, out of range), '
        'acknowledge_received_data (valid, zero, negative, excessive, never-used id), update_settings('
        'INITIAL_WINDOW_SIZE) with the ACK injected at a later step, resets and DATA on closed streams; the '
        'model is rebuilt only from frames seen in the output; non-trivial = an overrun attempt, or a raising '
        'window-changing call followed by later successful DATA/increment on the same connection; distinct by trace')
ASSUMPTIONS = ['local SETTINGS frames in this check change only INITIAL_WINDOW_SIZE and the handshake SETTINGS '
               'is acknowledged first, so per-key and per-frame acknowledgement coincide (C11 covers the rest)']
TIERS = {'quick': {'cases': 4000, 'size': 400},
         'thorough': {'cases': 900000, 'size': 600}}


def run_case(data):
    return inflow.run(data, 'C04', manual_ops=True, overrun_ops=True)


def _f01():
    from .. import wire
    from ..solo import Solo, REQ
    s = Solo(False)
    s.start()
    s.feed(wire.headers(1, s.hblock(REQ)))
    keys = []
    o = s.call('increment_flow_control_window', 2**31 - 1 - 65535 + 1, 1)
    if o.ok:
        keys.append('C04:overflowing-increment-accepted')
    o = s.call('increment_flow_control_window', 1, 1)
    if not o.ok:
        keys.append('C04:valid-increment-rejected:%s' % o.exc_name)
    o = s.call('increment_flow_control_window', 2**31 - 1 - 65535 + 1, None)
    if s.c.inbound_flow_control_window != 65535:
        keys.append('C04:connection-window-differs-from-advertised:after-inc')
    return keys


def _f02():
    from .. import wire
    from ..solo import Solo, REQ
    s = Solo(False)
    s.start()
    s.feed(wire.headers(1, s.hblock(REQ)))
    for n in (16384, 16384, 7232):
        s.feed(wire.data(1, b'x' * n))
    o = s.call('acknowledge_received_data', 40000, 99)
    keys = []
    if o.ok or o.out:
        keys.append('C04:raising-acknowledgement-emitted')
    if s.c.inbound_flow_control_window != 65535 - 40000:
        keys.append('C04:connection-window-differs-from-advertised:after-ack-odd')
    return keys


FINDINGS = {'F01-window-opened-mutates-first': _f01, 'F02-ack-unused-id-credits-connection': _f02}
