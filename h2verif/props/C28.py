"""C28 Output is a deterministic function of the call sequence."""
import hashlib
import os
import subprocess
import sys

from ..choose import Chooser
from ..runner import Result, ROOT
from .. import pair as P

ID = 'C28'
LEVEL = 'exploration'
ENGINE = 'E4 subprocess'
TECHNIQUE = ('property-based testing, differential: the same generated two-endpoint program is executed twice in '
             'this process and once in each of two other interpreter processes started with different '
             'PYTHONHASHSEED values (and different fake wall clocks); per-step transcripts are compared')
RULE = ('cases: the C01 program generator (calls on both endpoints incl. raising ones, header lists with str and '
        'bytes names, multi-key settings updates, pushes, resets, chunked deliveries). Transcript per step = '
        '(raised exception class and error code, emitted bytes, normalised events incl. header lists and changed '
        'settings, return value). The case runs in this process (PYTHONHASHSEED=0) twice and in two child '
        'interpreters (PYTHONHASHSEED=1 and 987654321, time.time/monotonic shifted by years, random reseeded); all '
        'four transcripts must be equal step by step. evaluations = executions (4 per case); non-trivial = the '
        'program has at least 15 steps, a header block with 5 or more fields and a raising call; distinct by trace')
ASSUMPTIONS = ['hash randomisation only affects str/bytes keys (ints hash to themselves), so the generator varies header '
               'names and values rather than setting codes',
               'exception messages are not compared (hpack puts object addresses into some)']
TIERS = {'quick': {'cases': 1600, 'size': 700},
         'thorough': {'cases': 60000, 'size': 1800}}
CHILD_SEEDS = ('1', '987654321')
_children = None


def transcript(data):
    """-> (list of per-step digests, list of step descriptions, stats)."""
    ch = Chooser(data)
    r = Result()
    p = P.Pair(r, ID)
    p.handshake(ch)
    if not p.stop:
        P.gen_program(ch, p, ch.int(10, 60))
    digs = [hashlib.blake2b(repr(sig).encode(), digest_size=6).hexdigest() for sig in p.sigs]
    return digs, p, r


def child():
    """Child interpreter: read case hex per line, answer with the per-step digests."""
    import random
    import time
    shift = float(os.environ.get('H2VERIF_CLOCK_SHIFT', '0'))
    real_time, real_mono = time.time, time.monotonic
    time.time = lambda: real_time() + shift
    time.monotonic = lambda: real_mono() + shift
    random.seed(int(shift) + 17)
    for line in sys.stdin:
        line = line.strip()
        if not line.startswith('case:'):
            continue
        try:
            digs, _, _ = transcript(bytes.fromhex(line[5:]))
            sys.stdout.write(' '.join(digs) + '\n')
        except Exception as e:   # noqa: BLE001 - reported to the parent, which treats it as a harness error
            sys.stdout.write('ERROR %s %r\n' % (type(e).__name__, e))
        sys.stdout.flush()


def _spawn():
    global _children
    _children = []
    for i, hs in enumerate(CHILD_SEEDS):
        env = dict(os.environ, PYTHONHASHSEED=hs, H2VERIF_CLOCK_SHIFT=str((i + 1) * 1.0e8),
                   PYTHONDONTWRITEBYTECODE='1')
        env['PYTHONPATH'] = os.pathsep.join([os.environ.get('H2VERIF_SRC', '/repo/src'), ROOT,
                                             os.path.join(ROOT, '.deps')])
        _children.append(subprocess.Popen(
            [sys.executable, '-c', 'from h2verif.props.C28 import child; child()'],
            stdin=subprocess.PIPE, stdout=subprocess.PIPE, env=env, cwd=ROOT, text=True))


def _ask(i, data):
    c = _children[i]
    c.stdin.write('case:' + bytes(data).hex() + '\n')
    c.stdin.flush()
    line = c.stdout.readline()
    if not line or line.startswith('ERROR'):
        raise RuntimeError('C28 child interpreter %d failed: %r' % (i, line))
    return line.split()


def describe(p, i):
    if i >= len(p.steps):
        return 'length'
    st = p.steps[i]
    return '%s:%s' % (st[0], st[2] if st[0] == 'call' else 'bytes')


def run_case(data):
    if _children is None:
        _spawn()
    a, p, r0 = transcript(data)
    r = Result()
    r.trace = r0.trace
    r.labels = {lab for lab in r0.labels if not lab.startswith('op:')}
    r.evals = 4
    b, _, _ = transcript(data)
    others = [('same-process', b)] + [('hashseed-' + CHILD_SEEDS[i], _ask(i, data)) for i in range(len(_children))]
    for name, d in others:
        if d != a:
            i = next((k for k in range(min(len(a), len(d))) if a[k] != d[k]), min(len(a), len(d)))
            r.violate('C28:transcript-differs:%s:%s' % ('same-process' if name == 'same-process' else 'other-process',
                                                        describe(p, i)),
                      'step %d of %d differs between PYTHONHASHSEED=0 and %s' % (i, len(a), name))
            break
    big = any(s[0] == 'call' and s[2] in ('send_headers', 'push_stream') and len(s[3][-1]) >= 5 for s in p.steps)
    r.nontrivial = len(p.steps) >= 15 and big and bool(p.raised)
    return r
