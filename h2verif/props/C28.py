"""C28 Output is a deterministic function of the call sequence."""
import hashlib
import os
import subprocess
import sys

from ..choose import Chooser
from ..runner import Result, ROOT
from .. import pair as P

ID = 'C28'
LEVEL = 'exploration'
ENGINE = 'E4 subprocess'
TECHNIQUE = ('property-based testing, differential: the same generated two-endpoint program is executed twice in '
             'this process and once in each of two other interpreter processes started with different '
             'PYTHONHASHSEED values (and different fake wall clocks); per-step transcripts are compared')
RULE = ('cases: (a, three quarters) the C01 program generator (calls on both endpoints incl. raising ones, header lists with str and '
        'bytes names, multi-key settings updates, pushes, resets, chunked deliveries); (b, one quarter) "fan" scenarios on one endpoint with 3..14 streams: header '
        'blocks with up to six (repeated) cookie fields, multi-key SETTINGS incl. unknown identifiers, received DATA '
        'partly acknowledged on every stream, an acknowledged INITIAL_WINDOW_SIZE change (every stream answers), '
        'resets / trailers, clean-up, GOAWAY, and for clients constructed as H2Connection() a late change of their '
        'own config.header_encoding. Transcript per step = '
        '(raised exception class and error code, emitted bytes, normalised events incl. header lists and changed '
        'settings, return value). The case runs in this process (PYTHONHASHSEED=0) twice, with a different program run on other connections in '
        'between, and in two child '
        'interpreters (PYTHONHASHSEED=1 and 987654321, time.time/monotonic shifted by years, random reseeded; the second child runs another program before each '
        'case, so the interpreters have different histories); all '
        'four transcripts must be equal step by step. evaluations = executions (4 per case); non-trivial = the '
        'program has at least 15 steps and (a) a header block with 5 or more fields and a raising call; distinct by '
        'trace')
ASSUMPTIONS = ['hash randomisation only affects str/bytes keys (ints hash to themselves), so the generator varies header '
               'names and values rather than setting codes',
               'exception messages are not compared (hpack puts object addresses into some)']
TIERS = {'quick': {'cases': 1600, 'size': 700},
         'thorough': {'cases': 120000, 'size': 1800}}
CHILD_SEEDS = ('1', '987654321')
_children = None


class FanLog:
    """Minimal stand-in for a Pair: the steps and signatures of a one-endpoint scenario."""

    def __init__(self):
        self.steps = []
        self.sigs = []
        self.raised = []

    def note(self, kind, name, arg, o):
        if not o.ok:
            self.raised.append(len(self.steps))
        self.steps.append((kind, '-', name, (arg,)))
        self.sigs.append(P.outcome_sig(o))


def fan_transcript(ch, r):
    """One endpoint with many streams and operations that touch all of them at once (an acknowledged
    INITIAL_WINDOW_SIZE change makes every stream with acknowledged data emit a WINDOW_UPDATE; GOAWAY; clean-up),
    header blocks with several repeated cookie fields, multi-key SETTINGS in both directions, and - for clients
    built the way the documentation shows, H2Connection() without a configuration object - a change of the
    connection's own config.header_encoding late in the run."""
    from hpack import Encoder
    from .. import wire
    from ..drive import Endpoint, h2
    log = FanLog()
    client = ch.bool()
    default_ctor = client and ch.bool()
    small_memory = ch.chance(64)
    loose = False
    bystander = None
    if default_ctor:
        ep = Endpoint(True, conn=h2.connection.H2Connection())
        r.labels.add('fan:default-constructed-client')
    elif small_memory:
        # the documented class constant lowered, so that the closed-stream memory overflows with a dozen streams
        cls = type('SmallMemoryConnection', (h2.connection.H2Connection,), {'MAX_CLOSED_STREAMS': ch.pick([1, 2, 3])})
        ep = Endpoint(client, conn=cls(h2.config.H2Configuration(client_side=client)))
        r.labels.add('fan:small-closed-stream-memory')
    else:
        # (one client in four has outbound validation off: it may then send lists no validator would pass, such as a
        # method given twice, once as bytes and once as text)
        loose = client and ch.chance(64)
        # the configuration object is shared with a second connection, as servers do for all their connections;
        # what that bystander is told by *its* peer differs between the two in-process runs (BYSTANDER) and must
        # not show in this connection's transcript
        cfg = h2.config.H2Configuration(client_side=client, header_encoding=ch.pick([None, None, 'utf-8', 'latin-1']),
                                        **({'validate_outbound_headers': False} if loose else {}))
        ep = Endpoint(client, conn=h2.connection.H2Connection(cfg))
        bystander = h2.connection.H2Connection(cfg)
    if ch.chance(80):
        # settings installed before the connection starts (the way some servers configure it)
        ep.c.local_settings = h2.settings.Settings(
            client=client, initial_values={3: ch.pick([10, 77, 100]), 6: ch.pick([65536, 30000, 8192 * 3])})
        r.labels.add('fan:local-settings-replaced')
    enc = Encoder()
    cookies = [(b'cookie', ch.pick([b'a=1', b'b=2', b'c=3', b'dd=44', b'e=5'])) for _ in range(ch.int(0, 6))]
    if ch.chance(64):
        # a field whose name decodes differently (or not at all) under different header_encoding settings
        cookies.append((ch.pick([b'x-caf\xe9', b'x-caf\xc3\xa9']), b'v'))
    if ch.chance(48):
        # several Host fields, one of which agrees with :authority
        hosts = [b'example.com', b'other.example', b'third.example']
        cookies = cookies + [(b'host', ch.pick(hosts)) for _ in range(ch.int(2, 3))]
        r.labels.add('fan:several-host-fields')
    req = [(b':method', b'POST'), (b':scheme', b'https'), (b':authority', b'example.com'), (b':path', b'/')] + cookies
    resp = [(b':status', b'200')] + cookies
    log.note('call', 'initiate_connection', None, ep.call('initiate_connection'))
    peer = [(k, v) for k, v in ((1, ch.pick([4096, 0, 256])), (3, ch.pick([100, 7])), (4, ch.pick([65535, 70000])),
                                (5, ch.pick([16384, 20000])), (6, 9000), (0x21, ch.u16()), (0x99, 1)) if ch.chance(200)]
    log.note('recv', 'settings', peer, ep.recv((b'' if client else wire.PREFACE) + wire.settings(peer) +
                                               wire.settings(ack=True)))
    if bystander is not None:
        r.labels.add('fan:bystander-sharing-the-configuration')
        try:
            bystander.initiate_connection()
            told = [(5, 2 ** 24 - 1), (4, 1000), (1, 0), (3, 1)] if BYSTANDER[0] else []
            bystander.receive_data((b'' if client else wire.PREFACE) + wire.settings(told) + wire.settings(ack=True))
            bystander.data_to_send()
        except Exception:   # noqa: BLE001 - the bystander is not under test
            pass
    k = ch.int(3, 14)
    sids = [1 + 2 * i for i in range(k)]
    for sid in sids:
        if client:
            log.note('call', 'send_headers', sid, ep.call('send_headers', sid, req))
            log.note('recv', 'headers', sid, ep.recv(wire.headers(sid, enc.encode(resp))))
        else:
            log.note('recv', 'headers', sid, ep.recv(wire.headers(sid, enc.encode(req))))
    total = 0
    untouched = []
    for sid in sids:
        n = ch.pick([0, 100, 3000, 4000, 4500])
        if total + n > 60000:
            n = 0
        total += n
        if not n:
            untouched.append(sid)
        if n:
            log.note('recv', 'data', sid, ep.recv(wire.data(sid, b'd' * n)))
            a = ch.pick([n, n, n // 2, 0])
            if a:
                log.note('call', 'acknowledge_received_data', sid, ep.call('acknowledge_received_data', a, sid))
    new = {4: ch.pick([6000, 2000, 100, 0, 65535, 100000])}
    if ch.bool():
        new[3] = ch.int(1, 50)
    if ch.bool():
        new[6] = ch.pick([100, 65536])
    log.note('call', 'update_settings', new, ep.call('update_settings', dict(new)))
    log.note('recv', 'settings-ack', None, ep.recv(wire.settings(ack=True)))
    if new[4] in (2000, 6000):
        # streams that have received nothing yet now have a small window: more than half of it is used and
        # acknowledged at once, which makes a stream-level WINDOW_UPDATE due while the connection's is not
        for sid in untouched[:3]:
            n2 = new[4] // 2 + 10
            if total + n2 > 60000:
                break
            total += n2
            log.note('recv', 'data', sid, ep.recv(wire.data(sid, b'e' * n2)))
            log.note('call', 'acknowledge_received_data', sid, ep.call('acknowledge_received_data', n2, sid))
        r.labels.add('fan:stream-window-update-without-connection-update')
    if default_ctor and ch.bool():
        ep.c.config.header_encoding = ch.pick(['utf-8', 'latin-1'])
        r.labels.add('fan:own-config-changed')
    for sid in sids[:ch.int(0, k)]:
        how = ch.int(0, 2)
        if how == 0:
            log.note('call', 'reset_stream', sid, ep.call('reset_stream', sid))
        elif how == 1:
            log.note('recv', 'rst', sid, ep.recv(wire.rst_stream(sid, 8)))
        else:
            log.note('recv', 'trailers', sid, ep.recv(wire.headers(sid, enc.encode(cookies + [(b'x-t', b'1')]),
                                                                   end_stream=True)))
    if ch.chance(96):
        # a message with two different content-length fields whose body matches the first of them
        sid = sids[-1] + 2
        dup = [(b'content-length', b'5'), (b'content-length', ch.pick([b'7', b'5', b'6']))]
        if client:
            log.note('call', 'send_headers', sid, ep.call('send_headers', sid, req))
            log.note('recv', 'headers', sid, ep.recv(wire.headers(sid, enc.encode([(b':status', b'200')] + dup))))
        else:
            log.note('recv', 'headers', sid, ep.recv(wire.headers(sid, enc.encode(req[:4] + dup))))
        log.note('recv', 'data', sid, ep.recv(wire.data(sid, b'12345', end_stream=True)))
        r.labels.add('fan:two-content-length-fields')
    if loose:
        # the same field under both spellings of its name, with different values: which one the library goes by is
        # its choice, but the same choice in every process
        sid = sids[-1] + 4
        a, b = ch.pick([(b'HEAD', 'GET'), (b'GET', 'HEAD'), (b'HEAD', 'POST')])
        two = [(b':method', a), (':method', b)]
        if ch.bool():
            two.reverse()
        log.note('call', 'send_headers', sid, ep.call('send_headers', sid, two + req[1:4]))
        log.note('recv', 'headers', sid, ep.recv(wire.headers(sid, enc.encode([(b':status', b'200'),
                                                                                (b'content-length', b'12')]),
                                                              end_stream=True)))
        r.labels.add('fan:method-under-both-spellings')
    _ = ep.c.open_inbound_streams, ep.c.open_outbound_streams
    if small_memory:
        # late frames on every stream: which of them are still remembered must not depend on anything but the calls
        for sid in sids:
            log.note('recv', 'late-headers', sid, ep.recv(wire.headers(sid, enc.encode([(b'x-late', b'1')]), end_stream=True)))
    if bystander is not None and client:
        # a request whose header block needs several frames at *this* peer's MAX_FRAME_SIZE
        sid = sids[-1] + 8
        log.note('call', 'send_headers', sid, ep.call('send_headers', sid, req[:4] + [(b'x-big', b'B' * 20000)]))
    log.note('call', 'close_connection', None, ep.call('close_connection'))
    r.labels.add('fan')
    if len(cookies) >= 3:
        r.labels.add('fan:>=3-cookie-fields')
    return log


def transcript(data):
    """-> (list of per-step digests, list of step descriptions, stats)."""
    ch = Chooser(data)
    if data and data[0] & 3 == 3:
        ch.u8()
        r = Result()
        p = fan_transcript(ch, r)
        digs = [hashlib.blake2b(repr(sig).encode(), digest_size=6).hexdigest() for sig in p.sigs]
        return digs, p, r
    r = Result()
    p = P.Pair(r, ID)
    p.handshake(ch)
    if not p.stop:
        P.gen_program(ch, p, ch.int(10, 60))
    digs = [hashlib.blake2b(repr(sig).encode(), digest_size=6).hexdigest() for sig in p.sigs]
    return digs, p, r


def noise_of(data):
    """Another program derived from the case: same generator, different choices."""
    d = bytes(data)
    return bytes((b * 7 + 3 + i) & 0xff for i, b in enumerate(d[::-1]))


def child():
    """Child interpreter: read case hex per line, answer with the per-step digests."""
    import random
    import time
    shift = float(os.environ.get('H2VERIF_CLOCK_SHIFT', '0'))
    real_time, real_mono = time.time, time.monotonic
    time.time = lambda: real_time() + shift
    time.monotonic = lambda: real_mono() + shift
    random.seed(int(shift) + 17)
    for line in sys.stdin:
        line = line.strip()
        if not line.startswith('case:'):
            continue
        try:
            data = bytes.fromhex(line[5:])
            if os.environ.get('H2VERIF_NOISE'):
                # this interpreter has a different history: another program runs before every case
                try:
                    transcript(noise_of(data))
                except Exception:   # noqa: BLE001 - the noise program is not the one being compared
                    pass
            digs, _, _ = transcript(data)
            sys.stdout.write(' '.join(digs) + '\n')
        except Exception as e:   # noqa: BLE001 - reported to the parent, which treats it as a harness error
            sys.stdout.write('ERROR %s %r\n' % (type(e).__name__, e))
        sys.stdout.flush()


def _respawn_noise_child():
    """A fresh interpreter for the child with the different history: what it does first is then something else
    again (state that the first connection of a process leaves behind shows only this way)."""
    old = _children[1]
    try:
        old.stdin.close()
        old.wait(timeout=10)
    except Exception:   # noqa: BLE001
        old.kill()
    _children[1] = _start_child(1, CHILD_SEEDS[1])


def _start_child(i, hs):
    env = dict(os.environ, PYTHONHASHSEED=hs, H2VERIF_CLOCK_SHIFT=str((i + 1) * 1.0e8),
               PYTHONDONTWRITEBYTECODE='1')
    if i == 1:
        env['H2VERIF_NOISE'] = '1'
    env['PYTHONPATH'] = os.pathsep.join([os.environ.get('H2VERIF_SRC', '/repo/src'), ROOT,
                                         os.path.join(ROOT, '.deps')])
    return subprocess.Popen(
        [sys.executable, '-c', 'from h2verif.props.C28 import child; child()'],
        stdin=subprocess.PIPE, stdout=subprocess.PIPE, env=env, cwd=ROOT, text=True)


def _spawn():
    global _children
    _children = [_start_child(i, hs) for i, hs in enumerate(CHILD_SEEDS)]


def _ask(i, data):
    c = _children[i]
    c.stdin.write('case:' + bytes(data).hex() + '\n')
    c.stdin.flush()
    line = c.stdout.readline()
    if not line or line.startswith('ERROR'):
        raise RuntimeError('C28 child interpreter %d failed: %r' % (i, line))
    return line.split()


def describe(p, i):
    if i >= len(p.steps):
        return 'length'
    st = p.steps[i]
    return '%s:%s' % (st[0], st[2] if st[0] == 'call' else 'bytes')


_ncases = [0]
BYSTANDER = [0]      # what the bystander connection of a fan scenario is told by its peer in this run


def run_case(data):
    if _children is None:
        _spawn()
    _ncases[0] += 1
    if _ncases[0] % 8 == 0:
        _respawn_noise_child()
    a, p, r0 = transcript(data)
    r = Result()
    r.trace = r0.trace
    r.labels = {lab for lab in r0.labels if not lab.startswith('op:')}
    r.evals = 4
    try:
        transcript(noise_of(data))       # a different program on other connections in between
    except Exception:   # noqa: BLE001
        pass
    BYSTANDER[0] = 1
    try:
        b, _, _ = transcript(data)
    finally:
        BYSTANDER[0] = 0
    others = [('same-process', b)] + [('hashseed-' + CHILD_SEEDS[i], _ask(i, data)) for i in range(len(_children))]
    for name, d in others:
        if d != a:
            i = next((k for k in range(min(len(a), len(d))) if a[k] != d[k]), min(len(a), len(d)))
            r.violate('C28:transcript-differs:%s:%s' % ('same-process' if name == 'same-process' else 'other-process',
                                                        describe(p, i)),
                      'step %d of %d differs between PYTHONHASHSEED=0 and %s' % (i, len(a), name))
            break
    if 'fan' in r.labels:
        r.nontrivial = len(p.steps) >= 15
        return r
    big = any(s[0] == 'call' and s[2] in ('send_headers', 'push_stream') and len(s[3][-1]) >= 5 for s in p.steps)
    r.nontrivial = len(p.steps) >= 15 and big and bool(p.raised)
    return r
