"""C25 h2c upgrade hands over settings and stream 1 consistently."""
from ..choose import Chooser
from ..runner import Result
from .. import pair as P, wire, model as M
from ..drive import h2

ID = 'C25'
LEVEL = 'exploration'
ENGINE = 'E1 pair'
TECHNIQUE = ('property-based testing: generated client settings through the HTTP2-Settings round trip '
             '(client encode -> server decode), then a generated two-endpoint continuation program under the C01 '
             'ledger and twin oracles; negative probes on clones of the upgraded pair')
RULE = ('cases: client local settings drawn per key from boundary values (each key present or absent), installed with '
        'Settings(client=True, initial_values=...); initiate_upgrade_connection on both sides; oracle 1: the '
        "server's remote_settings equal the client's local_settings key by key; oracle 2: next stream ids are 3 "
        '(client) and 2 (server); oracle 3 (on clones, because a refused call may close the stream - K03): the '
        'client cannot send DATA / END_STREAM / HEADERS on stream 1, DATA for stream 1 arriving at the server is '
        'refused; oracle 4: a C01 continuation program of 10..50 steps starting with stream 1 half-closed on both '
        'sides (the model lets the server answer it) under the ledger and twin oracles. evaluations = executed '
        'steps; non-trivial = at least two non-default settings and the continuation opened a new stream in each '
        'direction or answered stream 1; distinct by trace')
ASSUMPTIONS = ['HEADER_TABLE_SIZE stays 4096: with the Settings(initial_values=...) idiom the client\'s decoder keeps the default '
               'limit until its SETTINGS frame is acknowledged, so a server encoder that follows the HTTP2-Settings value at once '
               'is refused for a reason that is not what the property is about (the repeated-value case itself is F35, C13)',
               'MAX_HEADER_LIST_SIZE >= 8192, INITIAL_WINDOW_SIZE <= 2^20 and DATA frames <= 16384 '
               'bytes in the continuation: the Settings(initial_values=...) idiom leaves derived limits of the '
               'client stale until its SETTINGS frame is acknowledged, which is not what the property is about']
TIERS = {'quick': {'cases': 3000, 'size': 700},
         'thorough': {'cases': 300000, 'size': 1500}}
VALUES = {1: [4096], 2: [0, 1], 3: [0, 1, 100, 2 ** 32 - 1], 4: [0, 1, 65535, 65536, 2 ** 20],
          5: [16384, 16385, 65536, 2 ** 24 - 1], 6: [8192, 65536, 2 ** 32 - 1], 8: [0, 1],
          # extension settings h2 has no name for are handed over like the others (RFC 7540 s6.5.2: unknown
          # identifiers are carried and ignored, not dropped from the peer's view)
          9: [0, 1], 200: [0, 7, 2 ** 32 - 1]}
DEFAULTS = {1: 4096, 2: 1, 3: 100, 4: 65535, 5: 16384, 6: 65536, 8: 0}
REQ = [(':method', 'GET'), (':scheme', 'http'), (':authority', 'example.com'), (':path', '/')]


class UpgRaw(P.RawPair):
    def __init__(self, vals):
        super().__init__()
        self.ep['c'].c.local_settings = h2.settings.Settings(client=True, initial_values=dict(vals))


class UpgPair(P.Pair):
    def __init__(self, r, pid, vals):
        super().__init__(r, pid)
        self.ep['c'].c.local_settings = h2.settings.Settings(client=True, initial_values=dict(vals))

    def upgrade(self, ch):
        self.hs_ch = ch
        o = P.RawPair.call(self, 'c', 'initiate_upgrade_connection', (), {})
        self.steps.append(('call', 'c', 'initiate_upgrade_connection', (), {}))
        self.sigs.append(P.outcome_sig(o))
        if not o.ok or not isinstance(o.value, bytes):
            self.violate('client-upgrade-call-failed:%s' % o.exc_name, repr(o.value))
            return None
        hdr = o.value
        o = P.RawPair.call(self, 's', 'initiate_upgrade_connection', (hdr,), {})
        self.steps.append(('call', 's', 'initiate_upgrade_connection', (hdr,), {}))
        self.sigs.append(P.outcome_sig(o))
        if not o.ok:
            self.violate('server-upgrade-call-failed:%s' % o.exc_name, repr(o.exc))
            return None
        return hdr


def probes(vals, hdr, r):
    """Negative probes, each on its own clone of the freshly upgraded pair."""
    def clone():
        q = UpgRaw(vals)
        q.call('c', 'initiate_upgrade_connection', (), {})
        q.call('s', 'initiate_upgrade_connection', (hdr,), {})
        for _ in range(3):
            for frm in 'cs':
                q.deliver(frm, len(q.pipe[frm]))
        return q
    for name, args, kw in (('send_data', (1, b'x'), {}), ('end_stream', (1,), {}),
                           ('send_headers', (1, REQ), {}), ('send_headers', (1, [('x', 'y')]), {'end_stream': True})):
        q = clone()
        o = q.call('c', name, args, kw)
        r.evals += 1
        if o.ok or o.out:
            r.violate('C25:client-could-send-on-stream-1:%s' % name, o.out.hex()[:40])
        elif not o.is_h2error():
            r.violate('C25:client-send-on-stream-1-wrong-exception:%s' % o.exc_name, '')
    # before the client's preface and SETTINGS frame have arrived the server already knows the client's settings
    # from the header: it can answer stream 1 with frames as large as the client allows
    q = UpgRaw(vals)
    q.call('c', 'initiate_upgrade_connection', (), {})
    q.call('s', 'initiate_upgrade_connection', (hdr,), {})
    n = min(vals.get(5, 16384), 60000, vals.get(4, 65535))
    o = q.call('s', 'send_headers', (1, [(':status', '200')]), {})
    o2 = q.call('s', 'send_data', (1, b'e' * n), {}) if o.ok else o
    r.evals += 1
    if not o.ok or not o2.ok:
        r.violate('C25:early-answer-within-client-settings-refused:%s' % (o2.exc_name or o.exc_name),
                  '%d bytes, client MAX_FRAME_SIZE %r' % (n, vals.get(5)))
        return
    if n > 16384:
        r.labels.add('early-answer-with-large-frame')
    # a client's own MAX_HEADER_LIST_SIZE limits what it is willing to receive, not what it may send
    if vals.get(6, 65536) <= 8192:
        q = clone()
        o = q.call('c', 'send_headers', (3, REQ + [('x-fill', 'f' * 9000)]), {'end_stream': True})
        o2, _ = q.deliver('c', len(q.pipe['c']))
        r.evals += 1
        if not o.ok or not o2.ok or not any(e[0] == 'RequestReceived' for e in o2.events):
            r.violate('C25:request-larger-than-the-clients-own-header-list-limit-refused', o2.brief())
            return
        r.labels.add('client-header-list-limit-probe')
    # positive probe: each side sends as much body as it believes the peer's windows allow (the server as the
    # response on stream 1, the client on its first new stream); the receiver never acknowledges anything and
    # must accept all of it - the flow-control windows of the upgraded connection agree on both sides
    q = clone()
    for side, sid, first in (('s', 1, [(':status', '200')]), ('c', 3, REQ)):
        o = q.call(side, 'send_headers', (sid, first), {})
        r.evals += 1
        if not o.ok:
            r.violate('C25:first-send-after-upgrade-refused:%s:%s' % (side, o.exc_name), repr(o.exc))
            return
        total = 0
        for _ in range(80):
            ep = q.ep[side].c
            try:
                w = min(ep.local_flow_control_window(sid), ep.max_outbound_frame_size, 16384)
            except Exception as e:   # noqa: BLE001
                r.violate('C25:window-query-raised-after-upgrade:%s' % type(e).__name__, repr(e))
                return
            if w <= 0:
                break
            o = q.call(side, 'send_data', (sid, b'b' * w), {})
            if not o.ok:
                r.violate('C25:send-within-reported-window-refused:%s:%s' % (side, o.exc_name), repr(o.exc))
                return
            total += w
        o, _ = q.deliver(side, len(q.pipe[side]))
        r.evals += 1
        if not o.ok:
            r.violate('C25:peer-refused-body-sent-within-reported-windows:%s:%s:code=%s' % (side, o.exc_name, o.code),
                      '%d bytes sent by %s; %r' % (total, side, o.exc))
            return
        got = sum(len(e[2]) for e in o.events if e[0] == 'DataReceived' and e[1] == sid)
        if got != total:
            r.violate('C25:body-after-upgrade-not-delivered:%s' % side, 'sent %d received %d' % (total, got))
            return
    q = clone()
    o = q.ep['s'].recv(wire.data(1, b'x'))
    r.evals += 1
    rst = [f for f in wire.parse_all(o.out)[0] if f.type in (wire.RST_STREAM, wire.GOAWAY)]
    if o.ok and (any(e[0] == 'DataReceived' for e in o.events) or not rst):
        r.violate('C25:server-accepted-request-body-on-stream-1', repr(o.events))


def run_case(data):
    ch = Chooser(data)
    r = Result()
    vals = {}
    for k in sorted(VALUES):
        if ch.chance(150 if k < 9 else 60):
            vals[k] = ch.pick(VALUES[k])
    p = UpgPair(r, ID, vals)
    p.max_data = 16000
    hdr = p.upgrade(ch)
    r.step('client settings', {str(k): v for k, v in vals.items()}, 'HTTP2-Settings', hdr)
    if hdr is not None:
        c, s = p.ep['c'].c, p.ep['s'].c
        want = {int(k): v for k, v in dict(c.local_settings).items()}
        got = {int(k): v for k, v in dict(s.remote_settings).items()}
        for k in sorted(set(want) | set(got)):
            if want.get(k) != got.get(k):
                p.violate('server-view-of-client-setting-differs:%d' % k,
                          'client local %r, server remote %r' % (want.get(k), got.get(k)))
                break
        for k, v in vals.items():
            if want.get(k) != v:
                p.violate('client-local-setting-not-installed:%d' % k, repr(want))
        ids = (c.get_next_available_stream_id(), s.get_next_available_stream_id())
        if ids != (3, 2) and not p.stop:
            p.violate('next-stream-ids-after-upgrade:%r' % (ids,))
    if not p.stop:
        probes(vals, hdr, r)
    if r.violations:
        p.stop = True
    if not p.stop:
        p.flush_raw()
    if not p.stop:
        p.after_handshake()
        for side in 'cs':
            p.m[side].upgrade()
        P.gen_program(ch, p, ch.int(10, 50))
        base = r.evals
        r.evals = base + 5
        if not r.violations and not p.self_closed:
            # the ids carry on from the upgrade whatever has happened to stream 1 since (answered, closed,
            # cleaned out of the stream table)
            for side in 'cs':
                conn = p.ep[side].c
                _ = conn.open_outbound_streams, conn.open_inbound_streams      # public; triggers the clean-up
                hi = p.m[side].hi_local
                want = hi + 2 if hi else (1 if side == 'c' else 2)
                try:
                    got = conn.get_next_available_stream_id()
                except Exception as e:   # noqa: BLE001
                    got = type(e).__name__
                if got != want and want < 2**31:
                    p.violate('next-stream-id-after-program:%s' % ('client' if side == 'c' else 'server'),
                              'library %r, ids used so far go up to %d' % (got, hi))
    if not r.violations:
        bad = P.twin_check(p, lambda: UpgRaw(vals))
        if bad:
            r.violate('%s:%s' % (ID, bad[0]), bad[1])
    nondefault = sum(1 for k, v in vals.items() if DEFAULTS.get(k) != v)
    st1 = p.m['s'].get(1)
    answered = st1 is not None and st1.s_final
    new_c = any(sid > 1 and sid % 2 for sid in p.m['c'].streams)
    new_s = any(sid % 2 == 0 for sid in p.m['s'].streams)
    if answered:
        r.labels.add('stream-1-answered')
    if new_c and new_s:
        r.labels.add('new-streams-in-both-directions')
    r.labels = {lab for lab in r.labels if not lab.startswith('op:')}
    r.nontrivial = nondefault >= 2 and (answered or (new_c and new_s))
    return r
