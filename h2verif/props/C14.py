"""C14 Outbound header blocks are normalised and RFC 7540 s8.1.2 conformant."""
from .. import wire, headers as H
from ..choose import Chooser
from ..runner import Result
from ..solo import Solo, REQ, RESP

ID = 'C14'
LEVEL = 'exploration'
ENGINE = 'E2 solo'
TECHNIQUE = ('property-based testing: grammar-generated header lists (str/bytes, case, whitespace, tuple classes, '
             'labelled defects) vs. independent normaliser + conformance predicate on the mirror-decoded block')
RULE = ('cases: a header list for a request / pushed request / response / informational / trailer block built from '
        'a conformant skeleton plus 0..3 drawn defects, dressed with str/bytes per tuple, mixed-case names, '
        'surrounding whitespace and HeaderTuple / NeverIndexedHeaderTuple classes, sent under each '
        'normalise x validate outbound configuration by the appropriate role; the emitted block is decoded by the '
        'harness-owned HPACK decoder; non-trivial = at least one defect or one secure field '
        '(authorization, proxy-authorization, cookie); distinct by concrete trace')
ASSUMPTIONS = ['name and value of one tuple are both str or both bytes (DESIGN.md s4.1)',
               'dont-care zones: several Host fields, TE case variants, plain CONNECT, :authority and Host given '
               'with different Python string types']
TIERS = {'quick': {'cases': 12000, 'size': 128},
         'thorough': {'cases': 1000000, 'size': 128}}

KINDS = ['request', 'push', 'response', 'informational', 'trailers']
# reasons outbound *validation* promises to catch (normalisation handles case and whitespace)
VALIDATION_REASONS = {
    'connection-specific', 'te-not-trailers', 'pseudo-after-regular', 'duplicate-pseudo', 'unknown-pseudo',
    'pseudo-in-trailers', 'missing-status', 'request-pseudo-in-response', 'status-in-request', 'missing-method',
    'missing-scheme', 'missing-path', 'protocol-without-connect', 'missing-authority-and-host',
    'authority-host-mismatch', 'empty-path', 'empty-name'}
NORMALISATION_REASONS = {'uppercase-name', 'name-whitespace', 'value-whitespace', 'connection-specific'}


def _static():
    from hpack.table import HeaderTable
    return frozenset((bytes(n), bytes(v)) for n, v in HeaderTable.STATIC_TABLE)


STATIC = _static()
# header fields the endpoint's encoder has already sent (and indexed) before the block under test
PRIOR = {('trailers', True): [(bytes(n), bytes(v)) for n, v in REQ],
         ('trailers', False): [(bytes(n), bytes(v)) for n, v in RESP]}


def send(s, kind, client, hdrs, late_cfg=None, refused_first=False):
    """late_cfg: outbound switches the application sets on conn.config once the stream exists (the connection
    was created with them off): the configuration in force when the block is sent is what counts."""
    def switch():
        for k, v in (late_cfg or {}).items():
            setattr(s.c.config, k, v)
    if kind == 'request':
        switch()
        return s.call('send_headers', 1, hdrs)
    if kind == 'push':
        s.feed(wire.headers(1, s.hblock(REQ)))
        switch()
        return s.call('push_stream', 1, 2, hdrs)
    if kind in ('response', 'informational'):
        s.feed(wire.headers(1, s.hblock(REQ)))
        switch()
        return s.call('send_headers', 1, hdrs)
    if client:
        s.call('send_headers', 1, REQ)
    else:
        s.feed(wire.headers(1, s.hblock(REQ)))
        s.call('send_headers', 1, RESP)
    if refused_first:
        # a first attempt at the trailers is refused (no END_STREAM): the block under test still stands where
        # trailers stand
        s.call('send_headers', 1, [(b'x-early-trailer', b'1')])
    switch()
    return s.call('send_headers', 1, hdrs, end_stream=True)


def run_case(data):
    ch = Chooser(data)
    r = Result()
    kind = ch.pick(KINDS)
    normalize = not ch.chance(56)
    validate = not ch.chance(56)
    client = kind == 'request' or (kind == 'trailers' and ch.bool())
    fs, defects = H.gen_fields(ch, kind, allow=lambda d: d != 'odd-bytes' or True)
    if ch.chance(8):
        fs, defects = [], ['empty-list']
    dressed = H.dress(ch, fs)
    hdrs = H.materialize(dressed)
    late_cfg = None
    if ch.chance(24):
        late_cfg = {'normalize_outbound_headers': normalize, 'validate_outbound_headers': validate}
        s = Solo(client, normalize_outbound_headers=False, validate_outbound_headers=False)
        r.labels.add('switches-set-after-the-stream-exists')
    else:
        s = Solo(client, normalize_outbound_headers=normalize, validate_outbound_headers=validate)
    s.start()
    refused_first = kind == 'trailers' and ch.chance(64)
    if refused_first:
        r.labels.add('refused-trailers-first')
    o = send(s, kind, client, hdrs, late_cfg, refused_first)
    inp = [(H.b(n), H.b(v), cls == 'NeverIndexedHeaderTuple') for n, v, cls in dressed]
    norm = H.normalize_outbound(inp) if normalize else inp
    verdict, reasons = H.conformance([(n, v) for n, v, _ in norm], kind)
    # :authority / Host given with different Python string types: don't care
    types = {type(n) for n, v, _ in dressed if H.b(n).strip().lower() in (b':authority', b'host')}
    mixed_types = len(types) > 1
    r.step(kind, 'client' if client else 'server', {'normalize': normalize, 'validate': validate},
           [(n, v, cls) for n, v, cls in dressed], defects, verdict, reasons, o.brief())
    r.labels.add(kind)
    r.labels.add('verdict-' + verdict)
    secure = any(n in H.SECURE or n == b'cookie' for n, _, _ in norm)
    r.nontrivial = bool(defects) or secure
    if not o.ok:
        if not o.is_h2error():
            r.violate('C14:non-h2-exception:%s' % o.exc_name, repr(dressed))
        if o.out:
            r.violate('C14:refused-but-emitted', o.out.hex())
        if validate and normalize and verdict == H.OK and not mixed_types:
            r.violate('C14:conformant-refused:%s' % kind, '%r %r' % (dressed, o.exc))
        return r
    blocks = [f for f in o.frames if f.type in (wire.HEADERS, wire.PUSH_PROMISE)]
    if len(blocks) != 1 or blocks[0].f.get('headers') is None:
        r.violate('C14:no-single-decodable-block', repr(o.frames))
        return r
    got = blocks[0].f['headers']
    # hpack emits a field that matches a table entry exactly as an indexed field, which carries no
    # never-indexed marker (nothing new is revealed): the marker is a don't-care for such fields
    known = set(STATIC) | set(PRIOR.get((kind, client), ()))
    want_cmp, got_cmp = [], []
    for (wn, wv, wnever), g in zip(norm, got + [None] * (len(norm) - len(got))):
        if g is not None and (wn, wv) in known and (g[0], g[1]) == (wn, wv):
            want_cmp.append((wn, wv, None))
            got_cmp.append((g[0], g[1], None))
        else:
            want_cmp.append((wn, wv, wnever))
            got_cmp.append(g)
        if not wnever:
            known.add((wn, wv))
    if len(got) != len(norm) or got_cmp != want_cmp:
        r.violate('C14:emitted-differs-from-%s' % ('normalised-list' if normalize else 'given-list'),
                  'want %r got %r' % (norm, got))
        return r
    promised = set()
    if validate:
        promised |= VALIDATION_REASONS
    if normalize:
        promised |= NORMALISATION_REASONS
    v2, reasons2 = H.conformance([(n, v) for n, v, _ in got], kind)
    broken = [x for x in reasons2 if x in promised] if v2 == H.BAD else []
    # (the Python string types of :authority and Host are a dont-care only for *refusing* a pair that agrees;
    # a pair that disagrees on the wire must not be emitted however it was given)
    if broken:
        r.violate('C14:non-conformant-emitted:%s' % broken[0], repr(got))
    return r


def _one(kind, client, hdrs, **kw):
    s = Solo(client)
    s.start()
    return send(s, kind, client, hdrs)


def _f07():
    o = _one('trailers', True, [])
    return [] if o.ok or o.is_h2error() else ['C14:non-h2-exception:%s' % o.exc_name]


def _f08():
    o = _one('response', False, [(':status', '200'), (b':status', b'200'), (b'x-a', b'v')])
    return ['C14:non-conformant-emitted:duplicate-pseudo'] if o.ok else []


def _f09():
    o = _one('response', False, [(b':status', b'200'), (b'', b'v')])
    o2 = _one('response', False, [(b':status', b'200'), (b' ', b'v')])
    return ['C14:non-conformant-emitted:empty-name'] if o.ok or o2.ok else []


FINDINGS = {'F07-empty-header-list-indexerror': _f07, 'F08-duplicate-pseudo-str-bytes': _f08,
            'F09-empty-header-name-emitted': _f09}
