"""C06 Stream lifecycle follows the RFC 7540 section 5.1 state machine."""
import itertools

from .. import wire, model as M
from ..choose import Chooser
from ..runner import Result
from ..solo import Solo, REQ, RESP

ID = 'C06'
LEVEL = 'exploration'
ENGINE = 'E2 solo'
TECHNIQUE = ('bounded-exhaustive + property-based testing: every action sequence up to a depth bound (and generated '
             'longer ones) on a target stream in every context, each reaction compared with an RFC 7540 s5.1 '
             'reference model written from the RFC text')
GRID_EXHAUSTIVE = True
GRID_NOTE = ('all sequences over the 23-action alphabet up to depth 3 (quick) / 4 (thorough) in 16 contexts are '
             'enumerated; a sequence is cut after a connection error or after a refused local call on a live stream '
             '(known finding K03)')
RULE = ('alphabet: local {final headers, headers+END_STREAM, informational, trailers, data, data+END_STREAM, '
        'end_stream, reset, push, window increment, alt-svc} and received {HEADERS, HEADERS+END_STREAM, informational, '
        'trailers, DATA, DATA+END_STREAM, RST_STREAM, WINDOW_UPDATE, PUSH_PROMISE, naked CONTINUATION, PRIORITY, '
        'ALTSVC} on one target stream; contexts {client-opened, server-side inbound, reserved (local), reserved '
        '(remote), upgraded stream 1 on each side, a never-promised even id on each side, alone or below odd ids already in use} x {closed streams cleaned up after every step or not}; all '
        'sequences to the depth bound plus generated sequences of up to 30 steps, which also toggle either side\'s INITIAL_WINDOW_SIZE between 0 and 65535 (sending window at or below zero, receiving window exhausted); non-trivial = '
        'the sequence reaches a state other than idle/open or has a rejected step followed by further steps; '
        'distinct by (context, sequence)')
ASSUMPTIONS = ['leniency table of DESIGN.md s4.3', 'a sequence ends at the first connection error (C19 covers what '
               'follows) and at a refused local call on a live stream (K03)']
TIERS = {'quick': {'cases': 3000, 'size': 200, 'depth': 3},
         'thorough': {'cases': 200000, 'size': 300, 'depth': 4}}

LOCAL = ['L:final', 'L:final+es', 'L:info', 'L:trailers', 'L:data', 'L:data+es', 'L:end', 'L:rst', 'L:push',
         'L:wu', 'L:altsvc']
RECV = ['R:final', 'R:final+es', 'R:info', 'R:trailers', 'R:data', 'R:data+es', 'R:rst', 'R:wu', 'R:push',
        'R:cont', 'R:prio', 'R:altsvc']
ALPHABET = LOCAL + RECV
# generated sequences also move the two INITIAL_WINDOW_SIZE settings between 0 and 65535 (peer's: our sending window
# on live streams goes to zero or below; ours, acknowledged at once: the streams' receiving windows do), because
# flow-control checks sit next to the state checks and must not replace or precede them
ALPHABET_GEN = ALPHABET + ['R:iws', 'L:iws', 'L:badprio', 'L:limit']
CONTEXTS = ['client-idle', 'server-idle', 'reserved-local', 'reserved-remote', 'upgraded-client', 'upgraded-server',
            'client-idle-even', 'server-idle-even', 'client-busy-even', 'server-busy-even']
SEND_OPENERS = {'client-idle': ['L:final'], 'server-idle': ['R:final', 'L:final'], 'reserved-local': ['L:final'],
                'upgraded-server': ['L:final']}
INFO = [(b':status', b'103')]
TRAILERS = [(b'x-trailer', b'v')]
AVOID = set()
# refusals decided before any state machine is consulted: the sequence may continue after them
INERT_REFUSALS = {'message:not-a-request', 'message:second-final-block', 'message:trailers-without-end-stream',
                  'message:trailers-before-response', 'message:informational-with-end-stream', 'client-cannot-advertise',
                  'no-such-stream', 'stream-closed', 'stream-id-too-low', 'push-disabled', 'too-many-streams',
                  'client-cannot-push', 'connection-closed'}


def configure(known):
    AVOID.clear()
    for e in known:
        AVOID.update(e.get('excludes', []))


class World:
    """Endpoint under test + reference model + the target stream."""

    def __init__(self, context, cleanup):
        self.context = context
        self.cleanup = cleanup
        client = context in ('client-idle', 'reserved-remote', 'upgraded-client', 'client-idle-even', 'client-busy-even')
        self.client = client
        self.s = Solo(client)
        self.m = M.Conn(client)
        self.next_promise = 2
        self.peer_iws = 65535
        self.local_iws = 65535
        s, m = self.s, self.m
        if context.startswith('upgraded'):
            if client:
                s.call('initiate_upgrade_connection')
                s.feed(wire.settings() + wire.settings(ack=True))
            else:
                s.call('initiate_upgrade_connection', b'')
                s.feed(wire.PREFACE + wire.settings() + wire.settings(ack=True))
            m.upgrade()
            self.t = 1
            self.next_promise = 2
        else:
            s.start()
            self.t = 2 if context.endswith('-even') else 1
            if context.endswith('-even'):
                self.next_promise = 4
            if context.endswith('busy-even'):
                # the never-promised even id lies below ids the client has used already
                for sid in (1, 3):
                    if client:
                        s.call('send_headers', sid, REQ)
                        m.apply_send_headers(sid, 'request', False)
                    else:
                        s.feed(wire.headers(sid, s.hblock(REQ)))
                        m.apply_recv_headers(sid, 'request', False)
            if context == 'reserved-local':
                s.feed(wire.headers(1, s.hblock(REQ)))
                m.apply_recv_headers(1, 'request', False)
                o = s.call('push_stream', 1, 2, REQ)
                assert o.ok, o.exc
                m.apply_push(1, 2)
                self.t = 2
                self.next_promise = 4
            elif context == 'reserved-remote':
                s.call('send_headers', 1, REQ)
                m.apply_send_headers(1, 'request', False)
                o = s.feed(wire.push_promise(1, 2, s.hblock(REQ)))
                assert o.ok, o.exc
                m.apply_recv_push(1, 2)
                self.t = 2
                self.next_promise = 4

    def state_tag(self, sid):
        cls = self.m.classify(sid)
        if cls != 'known':
            return cls
        st = self.m.get(sid)
        tag = st.state
        if st.state == M.CLOSED:
            tag += '(%s)' % st.closed_by
        return tag


def final_list(world, local):
    """The 'final' block for the direction: request if the sender is the stream's client side."""
    st = world.m.get(world.t)
    if st is None and world.t % 2 == 0:
        # an even stream nobody promised: the worst case is a block shaped like a request
        return REQ
    t_is_client_initiated = world.t % 2 == 1
    if local:
        sends_request = world.client and t_is_client_initiated
    else:
        sends_request = (not world.client) and t_is_client_initiated
    return REQ if sends_request else RESP


def step(world, action, r, where):
    """Execute one action; compare with the model.  Returns 'continue' | 'stop'."""
    s, m, t = world.s, world.m, world.t
    tag = '%s:%s' % ('client' if world.client else 'server', world.state_tag(t))
    if world.cleanup:
        tag += ':cleanup'
    kind, name = action.split(':')
    if kind == 'L':
        return local_step(world, name, r, tag)
    return recv_step(world, name, r, tag)


def local_step(world, name, r, tag):
    s, m, t = world.s, world.m, world.t
    st = m.get(t)
    live_before = st is not None and st.live() or (st is None and m.classify(t) == 'idle')
    what = None
    if name in ('final', 'final+es', 'info', 'trailers'):
        es = name in ('final+es', 'trailers')
        kind = {'final': 'final', 'final+es': 'final', 'info': 'info', 'trailers': 'trailers'}[name]
        hdrs = {'final': final_list(world, True), 'info': INFO, 'trailers': TRAILERS}[kind]
        verdict, what = m.send_headers_verdict(t, kind, es)
        o = s.call('send_headers', t, hdrs, end_stream=es)
        if verdict == M.PERMIT and o.ok:
            m.apply_send_headers(t, what, es)
    elif name == 'iws':
        # our INITIAL_WINDOW_SIZE toggles between 0 and 65535 and the peer acknowledges at once
        world.local_iws = 0 if world.local_iws else 65535
        o = s.call('update_settings', {wire.S_INITIAL_WINDOW_SIZE: world.local_iws})
        o2 = s.feed(wire.settings(ack=True)) if o.ok else o
        r.step('call', 'update_settings INITIAL_WINDOW_SIZE', world.local_iws, o.brief(), 'acknowledged', o2.brief())
        if not o.ok or not o2.ok or any(f.type != wire.WINDOW_UPDATE for f in o2.frames):
            r.violate('C06:send:iws:%s:settings-change-failed' % tag, '%s %s %r' % (o.brief(), o2.brief(), o2.frames))
            return 'stop'
        r.labels.add('local-initial-window-size-changed')
        return 'continue'
    elif name == 'badprio':
        # a header block with an out-of-range priority weight: refused before any state machine is asked, whatever
        # the state of the stream - and therefore without moving it
        o = s.call('send_headers', t, final_list(world, True), priority_weight=0)
        r.step('call', 'send_headers with invalid priority weight', o.brief())
        if o.ok:
            r.violate('C06:send:badprio:%s:accepted' % tag, repr(o.frames)[:100])
            return 'stop'
        if o.out:
            r.violate('C06:send:badprio:%s:refused-call-emitted' % tag, o.out.hex()[:60])
        r.labels.add('invalid-priority-refused')
        return 'rejected'
    elif name == 'limit':
        # our MAX_CONCURRENT_STREAMS is set to the number of streams the peer has open right now (acknowledged at
        # once): a limit that is reached concerns new streams only, never frames on streams that exist or existed
        v = m.open_count(False)
        o = s.call('update_settings', {wire.S_MAX_CONCURRENT_STREAMS: v})
        o2 = s.feed(wire.settings(ack=True)) if o.ok else o
        r.step('call', 'update_settings MAX_CONCURRENT_STREAMS', v, o.brief(), 'acknowledged', o2.brief())
        if not o.ok or not o2.ok:
            r.violate('C06:send:limit:%s:settings-change-failed' % tag, '%s %s' % (o.brief(), o2.brief()))
            return 'stop'
        m.local_max_streams = v
        r.labels.add('stream-limit-reached')
        return 'continue'
    elif name in ('data', 'data+es'):
        es = name == 'data+es'
        verdict, what = m.send_data_verdict(t, es)
        q = s.call('local_flow_control_window', t)
        o = s.call('send_data', t, b'abc', end_stream=es)
        if verdict == M.PERMIT and q.ok and q.value < 3 and not o.ok and o.exc_name == 'FlowControlError':
            # the state permits DATA, the window (C03's subject; the library's own figure is used) does not:
            # an inert refusal
            r.step('call', name, 'window', q.value, 'library', o.brief())
            r.labels.add('data-refused-by-window')
            if o.out:
                r.violate('C06:send:%s:%s:refused-call-emitted' % (name, tag), o.out.hex()[:60])
            return 'rejected'
        if verdict == M.PERMIT and o.ok:
            if es:
                m.get(t).send_end()
    elif name == 'end':
        verdict, what = m.send_data_verdict(t, True)
        o = s.call('end_stream', t)
        if verdict == M.PERMIT and o.ok:
            m.get(t).send_end()
    elif name == 'rst':
        verdict, what = m.reset_verdict(t)
        o = s.call('reset_stream', t, wire.CANCEL)
        if verdict == M.PERMIT and o.ok:
            m.get(t).close('send-rst')
    elif name == 'push':
        pid = world.next_promise
        verdict, what = m.push_verdict(t, pid)
        o = s.call('push_stream', t, pid, REQ)
        if verdict == M.PERMIT and o.ok:
            m.apply_push(t, pid)
            world.next_promise += 2
    elif name == 'wu':
        verdict, what = m.window_update_verdict(t)
        o = s.call('increment_flow_control_window', 10, t)
    else:
        verdict, what = m.altsvc_stream_verdict(t)
        o = s.call('advertise_alternative_service', b'h2=":1"', stream_id=t)
    r.step('call', name, 'model', verdict, what, 'library', o.brief())
    if not o.ok and not o.is_h2error():
        r.violate('C06:send:%s:%s:non-h2-exception:%s' % (name, tag, o.exc_name), repr(o.exc))
        return 'stop'
    if verdict == M.PERMIT and not o.ok:
        r.violate('C06:send:%s:%s:permitted-by-rfc-but-refused:%s' % (name, tag, o.exc_name), repr(o.exc))
        return 'stop'
    if verdict == M.REFUSE and o.ok:
        if what == 'message:data-before-headers':
            # K04 (pinned by repository tests): recorded under one key, the sequence goes on with the
            # library's view (the frame was emitted)
            r.violate('C06:send:data-before-final-headers-accepted', '%s %s' % (name, tag))
            if name in ('data+es', 'end'):
                m.get(t).send_end()
            return 'continue'
        r.violate('C06:send:%s:%s:refused-by-rfc-but-accepted:%s' % (name, tag, what), repr(o.frames))
        return 'stop'
    if not o.ok and o.out:
        r.violate('C06:send:%s:%s:refused-call-emitted' % (name, tag), o.out.hex()[:60])
    if verdict == M.DONTCARE:
        if o.ok and what in ('pushed-stream', 'pointless-but-legal'):
            # whether the call is accepted is the library's choice; an accepted WINDOW_UPDATE or ALTSVC frame
            # never moves the stream to another state, so the sequence goes on against the unchanged model
            r.labels.add('stateless-dontcare-call-accepted')
            return 'continue'
        return 'stop'
    if not o.ok:
        r.labels.add('refused-local-call')
        if what not in INERT_REFUSALS or not m.seen_headers:
            # K03: the library's state machines treat a refused local input like an invalid received one
            # and close the stream (or the whole connection); what follows is not generated
            r.excluded['continuation-after-state-machine-refusal-of-local-call'] += 1
            return 'stop'
        return 'rejected'
    return 'continue'


def observe(o, sid, promised=None):
    if not o.ok:
        if o.is_protocol_error():
            return M.C(o.code)
        return ('exception', o.exc_name)
    rst = [f for f in o.frames if f.type == wire.RST_STREAM and f.stream_id == sid]
    if rst:
        return M.S(rst[0].f.get('code'))
    if promised is not None:
        ref = [f for f in o.frames if f.type == wire.RST_STREAM and f.stream_id == promised]
        if ref:
            return ('refuse-promise',)
    evs = [e for e in o.events if e[0] not in ('PriorityUpdated',) and len(e) > 1 and e[1] == sid]
    return M.ACCEPT if evs else M.IGNORE


def recv_step(world, name, r, tag):
    s, m, t = world.s, world.m, world.t
    what = None
    promised = None
    if name in ('final', 'final+es', 'info', 'trailers'):
        es = name in ('final+es', 'trailers')
        kind = {'final': 'final', 'final+es': 'final', 'info': 'info', 'trailers': 'trailers'}[name]
        hdrs = {'final': final_list(world, False), 'info': INFO, 'trailers': TRAILERS}[kind]
        want, what = m.recv_headers_verdict(t, kind, es)
        o = s.feed(wire.headers(t, s.hblock(hdrs), end_stream=es))
        got = observe(o, t)
        if got == M.ACCEPT and M.ACCEPT in want:
            m.apply_recv_headers(t, what, es)
    elif name == 'iws':
        # the peer's INITIAL_WINDOW_SIZE toggles between 0 and 65535
        world.peer_iws = 0 if world.peer_iws else 65535
        o = s.feed(wire.settings([(wire.S_INITIAL_WINDOW_SIZE, world.peer_iws)]))
        r.step('recv', 'SETTINGS INITIAL_WINDOW_SIZE', world.peer_iws, o.brief())
        if not o.ok or [f.type for f in o.frames] != [wire.SETTINGS]:
            r.violate('C06:recv:iws:%s:settings-not-acknowledged' % tag, '%s %r' % (o.brief(), o.frames))
            return 'stop'
        r.labels.add('peer-initial-window-size-changed')
        return 'continue'
    elif name in ('data', 'data+es'):
        es = name == 'data+es'
        want = m.recv_data_verdict(t)
        q = s.call('remote_flow_control_window', t)
        if q.ok and q.value < 3:
            st0 = m.get(t)
            if M.ACCEPT in want:
                # DATA the state accepts, beyond the window we advertised (C04's subject; the library's own
                # figure is used)
                want = {M.C(wire.FLOW_CONTROL_ERROR)}
                r.labels.add('data-beyond-window-on-live-stream')
            elif st0 is not None and st0.state != M.CLOSED:
                # not acceptable in this state and beyond the window: either complaint is right
                want = set(want) | {M.C(wire.FLOW_CONTROL_ERROR)}
            else:
                # a closed stream has no window left to violate: the state's verdict alone
                r.labels.add('data-on-closed-stream-with-exhausted-window')
        o = s.feed(wire.data(t, b'xyz', end_stream=es))
        got = observe(o, t)
        if got == M.ACCEPT and M.ACCEPT in want and es:
            m.get(t).recv_end()
    elif name == 'rst':
        want = m.recv_rst_verdict(t)
        o = s.feed(wire.rst_stream(t, wire.CANCEL))
        got = observe(o, t)
        if got == M.ACCEPT and M.ACCEPT in want:
            m.get(t).close('recv-rst')
    elif name == 'wu':
        want = m.recv_window_update_verdict(t)
        o = s.feed(wire.window_update(t, 10))
        got = observe(o, t)
    elif name == 'push':
        promised = world.next_promise
        want = m.recv_push_verdict(t, promised)
        o = s.feed(wire.push_promise(t, promised, s.hblock(REQ)))
        got = observe(o, t, promised)
        if got == M.ACCEPT and M.ACCEPT in want:
            m.apply_recv_push(t, promised)
        if o.ok:
            world.next_promise += 2
            if got == ('refuse-promise',):
                m.hi_peer = max(m.hi_peer, promised)
    elif name == 'cont':
        want = {M.C(M.P)}
        o = s.feed(wire.continuation(t, b''))
        got = observe(o, t)
    elif name == 'prio':
        want = {M.ACCEPT}
        o = s.feed(wire.priority(t, 0, 7))
        got = M.ACCEPT if (o.ok and [e for e in o.events if e[0] == 'PriorityUpdated'] and not o.frames) else \
            observe(o, t)
    else:
        # stream-bound ALTSVC without origin: event at a client before response headers, else ignored
        st = m.get(t)
        if world.client and st is not None and st.state in (M.OPEN, M.HC_LOCAL, M.RES_REMOTE) and not st.r_final:
            want = {M.ACCEPT, M.IGNORE}
        else:
            want = {M.IGNORE}
        o = s.feed(wire.altsvc(t, b'', b'h2=":1"'))
        if o.ok:
            got = M.ACCEPT if any(e[0] == 'AlternativeServiceAvailable' for e in o.events) else M.IGNORE
            if o.frames:
                got = ('emitted', o.frames[0].name)
        else:
            got = observe(o, t)
    r.step('recv', name, 'acceptable', sorted(map(str, want)), 'library', str(got))
    if got not in want:
        g = got if isinstance(got, str) else '%s(%s)' % (got[0], got[1] if len(got) > 1 else '')
        r.violate('C06:recv:%s:%s:got=%s' % (name, tag, g), 'acceptable: %s' % sorted(map(str, want)))
        return 'stop'
    if isinstance(got, tuple) and got[0] == 'connection-error':
        m.closed = 'error'
        goaways = [f for f in o.frames if f.type == wire.GOAWAY]
        if len(goaways) != 1 or goaways[0].f.get('code') != got[1]:
            r.violate('C06:recv:%s:%s:goaway-mismatch' % (name, tag), repr(o.frames))
        return 'stop'
    if isinstance(got, tuple) and got[0] == 'stream-error':
        st = m.get(t)
        if st is not None and st.state != M.CLOSED:
            st.close('send-rst')
        elif st is None and m.classify(t) == 'idle':
            # a stream error on an idle stream implicitly uses the id
            stn = m.streams[t] = M.Stream(t, local=m.is_local_id(t))
            stn.close('send-rst')
            if m.is_local_id(t):
                m.hi_local = max(m.hi_local, t)
            else:
                m.hi_peer = max(m.hi_peer, t)
        return 'rejected'
    return 'continue'


def run_sequence(context, cleanup, seq):
    r = Result()
    try:
        w = World(context, cleanup)
    except AssertionError as e:
        r.violate('C06:harness:context-setup-failed:%s' % context, repr(e))
        return r
    r.step('context', context, 'cleanup' if cleanup else 'no-cleanup', 'target', w.t)
    rejected_then_more = False
    rejected = False
    for i, action in enumerate(seq):
        if rejected:
            rejected_then_more = True
        res = step(w, action, r, i)
        if w.cleanup:
            w.s.c.open_inbound_streams
            w.s.c.open_outbound_streams
        if res == 'stop':
            break
        if res == 'rejected':
            rejected = True
    st = w.m.get(w.t)
    r.nontrivial = rejected_then_more or (st is not None and st.state not in (M.IDLE, M.OPEN))
    if w.s.out_problems:
        r.violate('C06:malformed-output', repr(w.s.out_problems))
    r.labels.add(context)
    return r


def grid_items(tier):
    depth = TIERS[tier]['depth']
    for ctx in CONTEXTS:
        for cleanup in (False, True):
            for d in range(1, depth + 1):
                for seq in itertools.product(range(len(ALPHABET)), repeat=d):
                    yield (ctx, cleanup, seq)


def run_grid_item(it):
    ctx, cleanup, seq = it
    return run_sequence(ctx, cleanup, [ALPHABET[i] for i in seq])


def run_case(data):
    ch = Chooser(data)
    ctx = ch.pick(CONTEXTS)
    cleanup = ch.bool()
    n = ch.int(4, 30)
    seq = [ch.pick(ALPHABET_GEN) for _ in range(n)]
    if ctx in SEND_OPENERS and ch.chance(64):
        # the target stream has sent DATA and the peer then takes the window away: what follows is decided by
        # the stream's state with a sending window below zero
        seq = SEND_OPENERS[ctx] + ['L:data', 'R:iws'] + seq[:n - 3]
    return run_sequence(ctx, cleanup, seq)


def _seq(*items):
    def fn():
        keys = []
        for ctx, cleanup, seq in items:
            keys += [k for k, _ in run_sequence(ctx, cleanup, seq).violations if 'data-before-final' not in k]
        return keys
    return fn


FINDINGS = {
    'F16-keyerror-end-stream-increment': _seq(('client-idle', False, ['L:end']),
                                              ('server-idle', True, ['R:final+es', 'L:final+es', 'L:wu'])),
    'F17-naked-continuation-on-forgotten-stream': _seq(('server-idle', True, ['R:final', 'R:rst', 'R:cont'])),
    'F18-informational-headers-on-closed-stream': _seq(('client-idle', False, ['L:final', 'L:rst', 'R:info'])),
    'F19-server-altsvc-moves-connection-fsm': _seq(('server-idle', False, ['R:altsvc', 'R:final', 'L:push'])),
    'F20-window-update-in-reserved-local': _seq(('reserved-local', False, ['L:wu'])),
    'F21-push-promise-on-half-closed-remote-parent': _seq(('client-idle', False, ['L:final', 'R:final+es', 'R:push'])),
    'F22-server-opens-stream-with-headers': _seq(('server-idle-even', False, ['L:final'])),
    'F23-client-accepts-never-promised-stream': _seq(('client-idle-even', False, ['R:final'])),
}


def _k03():
    """send_data on a half-closed (local) stream is refused - and closes the stream."""
    s = Solo(True)
    s.start()
    s.call('send_headers', 1, REQ, end_stream=True)
    o = s.call('send_data', 1, b'x')                     # refused: we already ended the stream
    o2 = s.feed(wire.headers(1, s.hblock(RESP)))          # the response must still be accepted
    bad = o.ok or not o2.ok or not any(e[0] == 'ResponseReceived' for e in o2.events)
    return ['C06:raised-call-not-inert:state-machine-refusal'] if bad else []


def _k04():
    s = Solo(False)
    s.start()
    s.feed(wire.headers(1, s.hblock(REQ)))
    o = s.call('send_data', 1, b'x')
    return ['C06:send:data-before-final-headers-accepted'] if o.ok else []


FINDINGS['K03-refused-local-input-closes-state-machine'] = _k03
FINDINGS['K04-data-before-response-headers'] = _k04
