"""C11 Settings take effect exactly when acknowledged, one frame per ACK, in order."""
from .. import wire
from ..choose import Chooser
from ..runner import Result
from ..solo import Solo, REQ, RESP
from ..hpackmirror import raw_block, table_size_update

ID = 'C11'
LEVEL = 'exploration'
ENGINE = 'E2 solo'
TECHNIQUE = ('property-based testing: generated update_settings / ACK / SETTINGS histories vs. a FIFO reference '
             'model of sent SETTINGS frames (with an exact model of the one recorded deviation)')
RULE = ('cases: histories (3..30 steps) of update_settings (1..4 keys, valid and invalid values, unknown ids <= 255), '
        'SETTINGS ACKs injected with 0..3 frames outstanding (the initial frame included), received SETTINGS with '
        'known and unknown identifiers, and probes of behaviour governed by the local settings (advertised stream '
        'window, inbound frame-size limit, local_settings values); the n-th ACK must report and apply exactly the '
        'n-th sent frame; non-trivial = >= 2 local SETTINGS frames outstanding at some ACK, or a raising '
        'update_settings followed by a successful one; distinct by concrete trace')
ASSUMPTIONS = ['known finding K02 (an ACK applies one pending value per key) is modelled exactly: the observed '
               'acknowledgement must equal the RFC model or exactly that deviation']
TIERS = {'quick': {'cases': 5000, 'size': 300},
         'thorough': {'cases': 1600000, 'size': 400}}

DEFAULT_LOCAL = {1: 4096, 3: 100, 4: 65535, 5: 16384, 6: 65536, 8: 0}   # + 2: role dependent
DEFAULT_REMOTE = {1: 4096, 4: 65535, 5: 16384, 8: 0}
VALID = {1: [0, 100, 4096, 65536], 2: [0, 1], 3: [0, 1, 5, 100, 2**31], 4: [0, 1, 100, 65535, 70000, 2**31 - 1],
         5: [16384, 16385, 20000, 2**24 - 1], 6: [0, 1000, 65536, 2**20], 8: [0, 1]}
INVALID = {2: [2, 7], 4: [2**31, 2**32 - 1], 5: [0, 16383, 2**24], 8: [2, 9]}
DEVIATION = 'C11:ack-applies-one-pending-value-per-key'


def upgrade_case(ch, r):
    """The client's settings that arrive in the HTTP2-Settings field of an h2c upgrade are the peer's settings like
    any others: in force at once, for what they govern and not only as numbers in remote_settings."""
    import base64
    import struct
    s = Solo(False)
    mfs = ch.pick([16384, 20000, 32768, 2**24 - 1])
    iws = ch.pick([65535, 100, 200000])
    hts = ch.pick([4096, 0, 256])
    body = b''.join(struct.pack('>HI', k, v) for k, v in ch.pick([
        [(5, mfs), (4, iws), (1, hts)], [(1, hts), (5, mfs)], [(4, iws)], [(5, mfs)]]))
    given = dict(struct.unpack('>HI', body[i:i + 6]) for i in range(0, len(body), 6))
    o = s.call('initiate_upgrade_connection', base64.urlsafe_b64encode(body).rstrip(b'='))
    s.note_peer_settings(sorted(given.items()))
    r.step('upgrade with HTTP2-Settings', sorted(given.items()), o.brief())
    if not o.ok:
        r.violate('C11:valid-upgrade-refused:%s' % o.exc_name, repr(given))
        return r
    want_mfs, want_iws = given.get(5, 16384), given.get(4, 65535)
    if s.c.max_outbound_frame_size != want_mfs or s.c.remote_settings.max_frame_size != want_mfs:
        r.violate('C11:remote-frame-size-not-immediate', 'upgrade: %r / %r, announced %r' % (
            s.c.max_outbound_frame_size, s.c.remote_settings.max_frame_size, want_mfs))
    q = s.call('local_flow_control_window', 1)
    if q.ok and q.value != min(65535, want_iws):
        r.violate('C11:remote-setting-not-immediate', 'upgrade: window of stream 1 %r, INITIAL_WINDOW_SIZE %r' % (
            q.value, want_iws))
    o = s.call('send_headers', 1, [(b':status', b'200'), (b'x-fill', b'X' * (min(want_mfs, 40000) + 50))])
    if not o.ok:
        r.violate('C11:valid-send-refused-after-remote-settings:%s' % o.exc_name, repr(o.exc)[:100])
    elif any(f.length > want_mfs for f in o.frames) or (want_mfs >= 40050 and len(o.frames) != 1):
        r.violate('C11:remote-max-frame-size-not-applied-to-existing-stream', 'upgrade: limit %d, frames %r' % (
            want_mfs, [(f.name, f.length) for f in o.frames]))
    if s.out_problems:
        r.violate('C11:malformed-output', repr(s.out_problems))
    r.nontrivial = len(given) >= 2
    r.labels.add('http2-settings-of-an-upgrade')
    return r


def run_case(data):
    ch = Chooser(data)
    r = Result()
    if ch.chance(14):
        return upgrade_case(ch, r)
    client = ch.bool()
    s = Solo(client)
    o = s.call('initiate_connection')
    local = dict(DEFAULT_LOCAL)
    local[2] = 1 if client else 0
    # check the initial frame: the defensive values are in force and announced
    f0 = [f for f in o.frames if f.type == wire.SETTINGS]
    if len(f0) != 1 or dict(f0[0].f['settings']) != local:
        r.violate('C11:initial-settings-frame-wrong', repr(o.frames))
        return r
    s.feed((b'' if client else wire.PREFACE) + wire.settings())
    remote = dict(DEFAULT_REMOTE)
    remote[2] = 0 if client else 1
    fifo = [{}]                     # sent, un-acknowledged local frames (initial one changes nothing)
    # library-deviation model: per-key queues of pending values
    dev_cur = dict(local)
    dev_q = {}
    rfc_cur = dict(local)
    diverged = False
    two_outstanding = raised_then_ok = False
    had_raise = False
    # a stream to probe the advertised window on
    if client:
        s.call('send_headers', 1, REQ)
    else:
        s.feed(wire.headers(1, s.hblock(REQ)))
    spare_stream = ch.bool()       # a second stream for a one-shot send-side probe (see 'recv')
    spare_open = False
    probe_sids = [1]
    if client and ch.bool():
        # a promised stream (reserved (remote)) is governed by the local INITIAL_WINDOW_SIZE like any other
        o = s.feed(wire.push_promise(1, 2, s.hblock(REQ)))
        if not o.ok:
            r.violate('C11:harness:push-rejected', o.brief())
            return r
        probe_sids.append(2)
        r.labels.add('promised-stream-probed')
    win_truth = 65535             # advertised stream window per the model in force
    conn_truth = 65535
    response_fed = False
    conn_dead = False
    used = manual1 = 0
    if ch.bool():
        response_fed = client
        # the peer has already used most of the probe stream's window (never acknowledged here): an acknowledged
        # INITIAL_WINDOW_SIZE reduction then makes the advertised window negative, which is legal (RFC 7540 s6.9.2)
        blob = (wire.headers(1, s.hblock(RESP)) if client else b'') + b''.join(wire.data(1, b'u' * 16384) for _ in range(3))
        o = s.feed(blob)
        if not o.ok:
            r.violate('C11:harness:data-rejected', o.brief())
            return r
        win_truth -= 3 * 16384
        conn_truth -= 3 * 16384
        used = 3 * 16384
        r.labels.add('probe-stream-window-partly-used')
    if ch.chance(96):
        # the application has enlarged the probe stream's window (and the connection's, so that it stays visible)
        # by hand: an INITIAL_WINDOW_SIZE change still moves it by the difference of the two settings values
        manual1 = ch.pick([1, 5000, 100000])
        o = s.call('increment_flow_control_window', manual1, 1)
        o2 = s.call('increment_flow_control_window', 200000)
        if not o.ok or not o2.ok:
            r.violate('C11:harness:manual-increment-refused', '%s %s' % (o.brief(), o2.brief()))
            return r
        win_truth += manual1
        conn_truth += 200000
        r.labels.add('probe-stream-window-enlarged-by-hand')
    r.step('role', 'client' if client else 'server')

    def probes(where):
        truth = dev_cur if diverged else rfc_cur
        for psid in probe_sids:
            q = s.call('remote_flow_control_window', psid)
            if q.ok and q.value != min(conn_truth, win_truth if psid == 1 else win_truth + used - manual1):
                r.violate('C11:governed-window-wrong:%s' % where, 'stream %d library %r model %r' %
                          (psid, q.value, win_truth))
        if s.c.max_inbound_frame_size != truth[5]:
            r.violate('C11:governed-frame-size-wrong:%s' % where, 'library %r model %r' %
                      (s.c.max_inbound_frame_size, truth[5]))
        for k, v in truth.items():
            try:
                got = s.c.local_settings[k]
            except KeyError:
                got = None
            if got != v:
                r.violate('C11:local-setting-in-force-wrong:%s' % where, 'key %d library %r model %r' % (k, got, v))
                break

    def real_violation():
        return any(k != DEVIATION for k, _ in r.violations)

    for stepno in range(ch.int(3, 30)):
        if real_violation():
            break
        op = ch.weighted([(6, 'update'), (6, 'ack'), (3, 'update-bad'), (4, 'recv'), (1, 'ping')])
        if op == 'update':
            if len(fifo) >= 4:
                continue
            new = {}
            for _ in range(ch.int(1, 4)):
                k = ch.pick([1, 2, 3, 4, 5, 6, 8, 9, 0x7f])
                if k in VALID:
                    new[k] = ch.pick(VALID[k])
                else:
                    new[k] = ch.u16()
            if manual1 and new.get(4, 0) > 2**31 - 1 - 400000:
                # our own INITIAL_WINDOW_SIZE change would overflow the window we enlarged by hand: not generated
                new[4] = 2**30
            o = s.call('update_settings', dict(new))
            r.step('update_settings', new, o.brief())
            if not o.ok:
                r.violate('C11:valid-update-refused:%s' % o.exc_name, repr(new))
                break
            fs = [f for f in o.frames if f.type == wire.SETTINGS and not f.f['ack']]
            if len(o.frames) != 1 or len(fs) != 1 or dict(fs[0].f['settings']) != new:
                r.violate('C11:update-wrong-frame', repr(o.frames))
                break
            fifo.append(new)
            for k, v in new.items():
                dev_q.setdefault(k, []).append(v)
            if had_raise:
                raised_then_ok = True
        elif op == 'update-bad':
            new = {}
            good_first = ch.bool()
            bad_k = ch.pick(sorted(INVALID))
            if good_first:
                gk = ch.pick([k for k in VALID if k != bad_k])
                new[gk] = ch.pick(VALID[gk])
            new[bad_k] = ch.pick(INVALID[bad_k])
            if not good_first and ch.bool():
                gk = ch.pick([k for k in VALID if k != bad_k])
                new[gk] = ch.pick(VALID[gk])
            o = s.call('update_settings', dict(new))
            r.step('update_settings(bad)', list(new.items()), o.brief())
            had_raise = True
            if o.ok:
                r.violate('C11:invalid-update-accepted', repr(new))
                break
            if o.exc_name != 'InvalidSettingsValueError':
                r.violate('C11:invalid-update-wrong-exception:%s' % o.exc_name, repr(new))
            if o.out:
                r.violate('C11:raising-update-emitted', o.out.hex())
            r.labels.add('raising-update')
        elif op == 'ack':
            if not fifo:
                continue
            if len(fifo) >= 2:
                two_outstanding = True
            frame = fifo.pop(0)
            # behavioural probe of the inbound frame-size limit: a frame of a size that only one of the two
            # limits allows, in the very receive_data call that carries the acknowledgement
            probe = b''
            probe_kind = None
            if 5 in frame and dev_q.get(5) and dev_q[5][0] == frame[5] and not diverged and \
                    rfc_cur[5] == dev_cur[5] and ch.bool():
                old_lim, new_lim = rfc_cur[5], frame[5]
                if new_lim > old_lim:
                    probe, probe_kind = wire.raw(0x55, 0, 0, b'\0' * (old_lim + 1)), 'within-new-limit'
                elif new_lim < old_lim and ch.chance(96):
                    probe, probe_kind = wire.raw(0x55, 0, 0, b'\0' * (new_lim + 1)), 'beyond-new-limit'
            o = s.feed(wire.settings(ack=True) + probe)
            if probe_kind == 'beyond-new-limit':
                r.labels.add('frame-size-probe-with-ack')
                if o.ok:
                    r.violate('C11:frame-beyond-acknowledged-limit-accepted', 'limit %d -> %d' % (old_lim, new_lim))
                elif o.code != wire.FRAME_SIZE_ERROR:
                    r.violate('C11:frame-beyond-acknowledged-limit-wrong-code:%s' % o.code, '')
                r.step('ack + oversize frame', frame, o.brief())
                conn_dead = True
                break
            if probe_kind == 'within-new-limit':
                r.labels.add('frame-size-probe-with-ack')
                if not o.ok:
                    r.violate('C11:frame-within-acknowledged-limit-refused:%s' % o.exc_name,
                              'limit %d -> %d, frame of %d bytes in the same receive_data call as the ACK' %
                              (old_lim, new_lim, old_lim + 1))
                    break
            if not o.ok:
                # our own INITIAL_WINDOW_SIZE change may overflow a window we advertised: not generated here
                r.violate('C11:ack-rejected:%s' % o.exc_name, repr(o.exc))
                break
            acks = [e for e in o.events if e[0] == 'SettingsAcknowledged']
            if len(acks) != 1:
                r.violate('C11:no-single-SettingsAcknowledged', repr(o.events))
                break
            got = acks[0][1]
            want_rfc = sorted((k, rfc_cur.get(k), v) for k, v in frame.items())
            want_dev = []
            for k in sorted(dev_q):
                if dev_q[k]:
                    v = dev_q[k].pop(0)
                    want_dev.append((k, dev_cur.get(k), v))
                    if k == 4:
                        pass
                    dev_cur[k] = v
            for k, v in frame.items():
                rfc_cur[k] = v
            r.step('ack', 'frame', frame, 'reported', got)
            if got == want_rfc and want_rfc == want_dev and not diverged:
                pass
            elif got == want_dev:
                if want_dev != want_rfc or diverged:
                    diverged = diverged or (dev_cur != rfc_cur) or want_dev != want_rfc
                    r.violate(DEVIATION, 'frame %r: RFC model %r, library %r' % (frame, want_rfc, got))
            else:
                r.violate('C11:acknowledgement-reports-wrong-changes', 'frame %r: want %r (deviation %r) got %r' %
                          (frame, want_rfc, want_dev, got))
                break
            # window of the probe stream follows INITIAL_WINDOW_SIZE changes in force
            for k, old, new_v in got:
                if k == 4:
                    win_truth += new_v - old
            if spare_stream and spare_open and any(k == 5 and new_v > remote[5] for k, _, new_v in got) and \
                    remote[5] <= 70000 and not real_violation():
                # our own MAX_FRAME_SIZE has just been raised above the peer's: that governs what we accept, not
                # how our header blocks are sliced - on streams that exist already as on new ones
                spare_stream = False
                fill = [(b'x-fill', b'X' * (remote[5] + 50))]
                o = s.call('send_headers', 3, fill if client else [(b':status', b'200')] + fill, end_stream=True)
                r.step('big block on an older stream after our own MAX_FRAME_SIZE was acknowledged', 'peer limit',
                       remote[5], [(f.name, f.length) for f in o.frames], o.brief())
                if not o.ok:
                    r.violate('C11:valid-send-refused-after-local-settings-ack:%s' % o.exc_name, repr(o.exc)[:120])
                    break
                if any(f.length > remote[5] for f in o.frames):
                    r.violate('C11:local-max-frame-size-applied-to-outbound-frames',
                              'peer limit %d, frames %r' % (remote[5], [(f.name, f.length) for f in o.frames]))
                    break
                r.labels.add('local-max-frame-size-probe')
        elif op == 'recv':
            pairs = []
            for _ in range(ch.int(0, 4)):
                k = ch.pick([1, 2, 3, 4, 5, 6, 8, 0x10, 0xfff0])
                if k in [p[0] for p in pairs]:
                    continue
                if k == 2:
                    v = 0 if client else ch.int(0, 1)
                elif k in VALID:
                    v = ch.pick(VALID[k])
                else:
                    v = ch.u16()
                if k == 4 and v > 2**30:
                    v = 70000
                pairs.append((k, v))
            nframes = 1
            buf = wire.settings(pairs)
            second = None
            if ch.chance(48):
                second = [(3, ch.int(1, 99))]
                buf += wire.settings(second)
                nframes = 2
            o = s.feed(buf)
            r.step('recv SETTINGS', pairs, second, o.brief())
            if not o.ok:
                r.violate('C11:valid-settings-rejected:%s' % o.exc_name, repr(pairs))
                break
            s.note_peer_settings(pairs + (second or []))     # the mirror decoder follows the announced table size
            evs = [e for e in o.events if e[0] == 'RemoteSettingsChanged']
            old_remote_mfs = remote.get(5)
            want = [sorted((k, remote.get(k), v) for k, v in pairs)]
            for k, v in pairs:
                remote[k] = v
            if second:
                want.append(sorted((k, remote.get(k), v) for k, v in second))
                for k, v in second:
                    remote[k] = v
            if [e[1] for e in evs] != want:
                r.violate('C11:RemoteSettingsChanged-wrong', 'want %r got %r' % (want, [e[1] for e in evs]))
                break
            acks = [f for f in o.frames if f.type == wire.SETTINGS and f.f['ack']]
            if len(acks) != nframes or any(f.problems for f in acks):
                r.violate('C11:received-settings-not-acked-once', repr(o.frames))
                break
            # effective immediately
            if s.c.max_outbound_frame_size != remote[5]:
                r.violate('C11:remote-frame-size-not-immediate', '%r vs %r' % (s.c.max_outbound_frame_size, remote[5]))
            for k, v in remote.items():
                try:
                    got = s.c.remote_settings[k]
                except KeyError:
                    got = None
                if got != v:
                    r.violate('C11:remote-setting-not-immediate', 'key %d library %r model %r' % (k, got, v))
                    break
            r.labels.add('recv-settings')
            if spare_stream and not spare_open and remote[5] > (old_remote_mfs or 16384) and not real_violation():
                # the probe stream is opened while the peer allows large frames ...
                if (client and remote.get(3, 100) < 2) or \
                        (not client and (min(rfc_cur.get(3, 100), dev_cur.get(3, 100)) < 2 or
                                         min(rfc_cur.get(6, 65536), dev_cur.get(6, 65536)) < 1000)):
                    spare_stream = False        # a second stream is not allowed right now
                else:
                    spare_open = True
                    # (fed as literals behind a table-size update to 0: valid whatever HEADER_TABLE_SIZE this
                    # endpoint has had acknowledged in the meantime)
                    o = s.call('send_headers', 3, REQ) if client else \
                        s.feed(wire.headers(3, table_size_update(0) + raw_block(REQ)))
                    if not o.ok:
                        r.violate('C11:harness:probe-stream-not-opened', o.brief())
                        break
            elif spare_stream and spare_open and remote[5] < (old_remote_mfs or 16384) and remote[5] <= 70000 \
                    and not real_violation():
                # ... and used after the peer has lowered MAX_FRAME_SIZE again: the new value binds at once, on
                # streams that exist already as well, so a larger header block is split accordingly
                spare_stream = False
                fill = [(b'x-fill', b'X' * (remote[5] + 50))]
                o = s.call('send_headers', 3, fill if client else [(b':status', b'200')] + fill, end_stream=True)
                r.step('big block on an older stream', 'peer MAX_FRAME_SIZE', remote[5],
                       [(f.name, f.length) for f in o.frames], o.brief())
                if not o.ok:
                    r.violate('C11:valid-send-refused-after-remote-settings:%s' % o.exc_name, repr(o.exc)[:120])
                    break
                if any(f.length > remote[5] for f in o.frames):
                    r.violate('C11:remote-max-frame-size-not-applied-to-existing-stream',
                              'limit %d, frames %r' % (remote[5], [(f.name, f.length) for f in o.frames]))
                    break
                r.labels.add('remote-max-frame-size-probe')
        else:
            s.feed(wire.ping(b'\0' * 8))
        if not real_violation():
            probes('after-' + op)
    # final probe of two more things the acknowledged local settings govern: the HPACK decoder's table-size
    # limit (a size update up to the acknowledged HEADER_TABLE_SIZE is legal, nothing above it) and, at a server,
    # how many streams the peer may have open
    truth = dev_cur if diverged else rfc_cur
    if not real_violation() and not conn_dead and truth.get(6, 65536) >= 1000 and ch.bool():
        hts = truth.get(1, 4096)
        if client and not response_fed:
            o = s.feed(wire.headers(1, table_size_update(hts) + raw_block(RESP)))
            r.step('final probe: response behind a table-size update to', hts, o.brief())
            if not o.ok or not any(e[0] == 'ResponseReceived' for e in o.events):
                r.violate('C11:header-block-within-acknowledged-table-size-refused', '%d: %s' % (hts, o.brief()))
            r.labels.add('final-probe')
        elif not client:
            count = 1 + (1 if spare_open else 0)
            lim = truth.get(3, 100)
            o = s.feed(wire.headers(101, table_size_update(hts) + raw_block(REQ), end_stream=True))
            r.step('final probe: request behind a table-size update to', hts, 'open streams', count, 'limit', lim,
                   o.brief())
            accepted = o.ok and any(e[0] == 'RequestReceived' for e in o.events)
            if count + 1 <= lim and not accepted:
                r.violate('C11:stream-within-acknowledged-limits-refused', 'table %d, %d open, limit %d: %s' %
                          (hts, count, lim, o.brief()))
            elif count + 1 > lim and accepted:
                r.violate('C11:stream-beyond-acknowledged-limit-accepted', '%d open, limit %d' % (count, lim))
            r.labels.add('final-probe')
    if client and not real_violation() and not conn_dead and truth.get(2) == 0 and not fifo and ch.bool():
        # ENABLE_PUSH = 0 has been acknowledged: a PUSH_PROMISE is a connection error (RFC 7540 s6.6) wherever it
        # arrives - on the live request stream, or on one we have reset and forgotten
        forgotten = ch.bool()
        if forgotten:
            s.call('reset_stream', 1)
            s.c.open_outbound_streams
        o = s.feed(wire.push_promise(1, 4, raw_block(REQ)))
        r.step('final probe: PUSH_PROMISE with push disabled', 'on a forgotten stream' if forgotten else '', o.brief())
        if o.ok or not o.is_protocol_error() or o.code != wire.PROTOCOL_ERROR:
            r.violate('C11:push-promise-accepted-after-acknowledged-disable', o.brief())
        r.labels.add('final-probe-push-disabled')
    if s.out_problems:
        r.violate('C11:malformed-output', repr(s.out_problems))
    r.nontrivial = two_outstanding or raised_then_ok
    if two_outstanding:
        r.labels.add('two-outstanding-at-ack')
    if raised_then_ok:
        r.labels.add('raise-then-success')
    if diverged:
        r.labels.add('deviation-K02-observed')
    return r


def _k02():
    s = Solo(True)
    s.call('initiate_connection')
    s.feed(wire.settings())
    s.call('update_settings', {3: 5})
    o = s.feed(wire.settings(ack=True))          # acknowledges the initial frame only
    acks = [e for e in o.events if e[0] == 'SettingsAcknowledged']
    return [DEVIATION] if acks and acks[0][1] else []


def _f13():
    s = Solo(True)
    s.start()
    o = s.call('update_settings', {1: 0, 2: 7})
    o2 = s.feed(wire.settings(ack=True))
    acks = [e for e in o2.events if e[0] == 'SettingsAcknowledged']
    return ['C11:acknowledgement-reports-wrong-changes'] if (o.ok or (acks and acks[0][1])) else []


FINDINGS = {'K02-ack-applies-one-pending-value-per-key': _k02, 'F13-update-settings-partial-application': _f13}
