"""C11 Settings take effect exactly when acknowledged, one frame per ACK, in order."""
from .. import wire
from ..choose import Chooser
from ..runner import Result
from ..solo import Solo, REQ, RESP

ID = 'C11'
LEVEL = 'exploration'
ENGINE = 'E2 solo'
TECHNIQUE = ('property-based testing: generated update_settings / ACK / SETTINGS histories vs. a FIFO reference '
             'model of sent SETTINGS frames (with an exact model of the one recorded deviation)')
RULE = ('cases: histories (3..30 steps) of update_settings (1..4 keys, valid and invalid values, unknown ids <= 255), '
        'SETTINGS ACKs injected with 0..3 frames outstanding (the initial frame included), received SETTINGS with '
        'known and unknown identifiers, and probes of behaviour governed by the local settings (advertised stream '
        'window, inbound frame-size limit, local_settings values); the n-th ACK must report and apply exactly the '
        'n-th sent frame; non-trivial = >= 2 local SETTINGS frames outstanding at some ACK, or a raising '
        'update_settings followed by a successful one; distinct by concrete trace')
ASSUMPTIONS = ['known finding K02 (an ACK applies one pending value per key) is modelled exactly: the observed '
               'acknowledgement must equal the RFC model or exactly that deviation']
TIERS = {'quick': {'cases': 5000, 'size': 300},
         'thorough': {'cases': 1600000, 'size': 400}}

DEFAULT_LOCAL = {1: 4096, 3: 100, 4: 65535, 5: 16384, 6: 65536, 8: 0}   # + 2: role dependent
DEFAULT_REMOTE = {1: 4096, 4: 65535, 5: 16384, 8: 0}
VALID = {1: [0, 100, 4096, 65536], 2: [0, 1], 3: [0, 1, 5, 100, 2**31], 4: [0, 1, 100, 65535, 70000, 2**31 - 1],
         5: [16384, 16385, 20000, 2**24 - 1], 6: [0, 1000, 65536, 2**20], 8: [0, 1]}
INVALID = {2: [2, 7], 4: [2**31, 2**32 - 1], 5: [0, 16383, 2**24], 8: [2, 9]}
DEVIATION = 'C11:ack-applies-one-pending-value-per-key'


def run_case(data):
    ch = Chooser(data)
    r = Result()
    client = ch.bool()
    s = Solo(client)
    o = s.call('initiate_connection')
    local = dict(DEFAULT_LOCAL)
    local[2] = 1 if client else 0
    # check the initial frame: the defensive values are in force and announced
    f0 = [f for f in o.frames if f.type == wire.SETTINGS]
    if len(f0) != 1 or dict(f0[0].f['settings']) != local:
        r.violate('C11:initial-settings-frame-wrong', repr(o.frames))
        return r
    s.feed((b'' if client else wire.PREFACE) + wire.settings())
    remote = dict(DEFAULT_REMOTE)
    remote[2] = 0 if client else 1
    fifo = [{}]                     # sent, un-acknowledged local frames (initial one changes nothing)
    # library-deviation model: per-key queues of pending values
    dev_cur = dict(local)
    dev_q = {}
    rfc_cur = dict(local)
    diverged = False
    two_outstanding = raised_then_ok = False
    had_raise = False
    # a stream to probe the advertised window on
    if client:
        s.call('send_headers', 1, REQ)
    else:
        s.feed(wire.headers(1, s.hblock(REQ)))
    probe_sids = [1]
    if client and ch.bool():
        # a promised stream (reserved (remote)) is governed by the local INITIAL_WINDOW_SIZE like any other
        o = s.feed(wire.push_promise(1, 2, s.hblock(REQ)))
        if not o.ok:
            r.violate('C11:harness:push-rejected', o.brief())
            return r
        probe_sids.append(2)
        r.labels.add('promised-stream-probed')
    win_truth = 65535             # advertised stream window per the model in force
    r.step('role', 'client' if client else 'server')

    def probes(where):
        truth = dev_cur if diverged else rfc_cur
        for psid in probe_sids:
            q = s.call('remote_flow_control_window', psid)
            if q.ok and q.value != min(65535, win_truth):
                r.violate('C11:governed-window-wrong:%s' % where, 'stream %d library %r model %r' %
                          (psid, q.value, win_truth))
        if s.c.max_inbound_frame_size != truth[5]:
            r.violate('C11:governed-frame-size-wrong:%s' % where, 'library %r model %r' %
                      (s.c.max_inbound_frame_size, truth[5]))
        for k, v in truth.items():
            try:
                got = s.c.local_settings[k]
            except KeyError:
                got = None
            if got != v:
                r.violate('C11:local-setting-in-force-wrong:%s' % where, 'key %d library %r model %r' % (k, got, v))
                break

    def real_violation():
        return any(k != DEVIATION for k, _ in r.violations)

    for stepno in range(ch.int(3, 30)):
        if real_violation():
            break
        op = ch.weighted([(6, 'update'), (6, 'ack'), (3, 'update-bad'), (4, 'recv'), (1, 'ping')])
        if op == 'update':
            if len(fifo) >= 4:
                continue
            new = {}
            for _ in range(ch.int(1, 4)):
                k = ch.pick([1, 2, 3, 4, 5, 6, 8, 9, 0x7f])
                if k in VALID:
                    new[k] = ch.pick(VALID[k])
                else:
                    new[k] = ch.u16()
            o = s.call('update_settings', dict(new))
            r.step('update_settings', new, o.brief())
            if not o.ok:
                r.violate('C11:valid-update-refused:%s' % o.exc_name, repr(new))
                break
            fs = [f for f in o.frames if f.type == wire.SETTINGS and not f.f['ack']]
            if len(o.frames) != 1 or len(fs) != 1 or dict(fs[0].f['settings']) != new:
                r.violate('C11:update-wrong-frame', repr(o.frames))
                break
            fifo.append(new)
            for k, v in new.items():
                dev_q.setdefault(k, []).append(v)
            if had_raise:
                raised_then_ok = True
        elif op == 'update-bad':
            new = {}
            good_first = ch.bool()
            bad_k = ch.pick(sorted(INVALID))
            if good_first:
                gk = ch.pick([k for k in VALID if k != bad_k])
                new[gk] = ch.pick(VALID[gk])
            new[bad_k] = ch.pick(INVALID[bad_k])
            if not good_first and ch.bool():
                gk = ch.pick([k for k in VALID if k != bad_k])
                new[gk] = ch.pick(VALID[gk])
            o = s.call('update_settings', dict(new))
            r.step('update_settings(bad)', list(new.items()), o.brief())
            had_raise = True
            if o.ok:
                r.violate('C11:invalid-update-accepted', repr(new))
                break
            if o.exc_name != 'InvalidSettingsValueError':
                r.violate('C11:invalid-update-wrong-exception:%s' % o.exc_name, repr(new))
            if o.out:
                r.violate('C11:raising-update-emitted', o.out.hex())
            r.labels.add('raising-update')
        elif op == 'ack':
            if not fifo:
                continue
            if len(fifo) >= 2:
                two_outstanding = True
            frame = fifo.pop(0)
            o = s.feed(wire.settings(ack=True))
            if not o.ok:
                # our own INITIAL_WINDOW_SIZE change may overflow a window we advertised: not generated here
                r.violate('C11:ack-rejected:%s' % o.exc_name, repr(o.exc))
                break
            acks = [e for e in o.events if e[0] == 'SettingsAcknowledged']
            if len(acks) != 1:
                r.violate('C11:no-single-SettingsAcknowledged', repr(o.events))
                break
            got = acks[0][1]
            want_rfc = sorted((k, rfc_cur.get(k), v) for k, v in frame.items())
            want_dev = []
            for k in sorted(dev_q):
                if dev_q[k]:
                    v = dev_q[k].pop(0)
                    want_dev.append((k, dev_cur.get(k), v))
                    if k == 4:
                        pass
                    dev_cur[k] = v
            for k, v in frame.items():
                rfc_cur[k] = v
            r.step('ack', 'frame', frame, 'reported', got)
            if got == want_rfc and want_rfc == want_dev and not diverged:
                pass
            elif got == want_dev:
                if want_dev != want_rfc or diverged:
                    diverged = diverged or (dev_cur != rfc_cur) or want_dev != want_rfc
                    r.violate(DEVIATION, 'frame %r: RFC model %r, library %r' % (frame, want_rfc, got))
            else:
                r.violate('C11:acknowledgement-reports-wrong-changes', 'frame %r: want %r (deviation %r) got %r' %
                          (frame, want_rfc, want_dev, got))
                break
            # window of the probe stream follows INITIAL_WINDOW_SIZE changes in force
            for k, old, new_v in got:
                if k == 4:
                    win_truth += new_v - old
        elif op == 'recv':
            pairs = []
            for _ in range(ch.int(0, 4)):
                k = ch.pick([1, 2, 3, 4, 5, 6, 8, 0x10, 0xfff0])
                if k in [p[0] for p in pairs]:
                    continue
                if k == 2:
                    v = 0 if client else ch.int(0, 1)
                elif k in VALID:
                    v = ch.pick(VALID[k])
                else:
                    v = ch.u16()
                if k == 4 and v > 2**30:
                    v = 70000
                pairs.append((k, v))
            nframes = 1
            buf = wire.settings(pairs)
            second = None
            if ch.chance(48):
                second = [(3, ch.int(1, 99))]
                buf += wire.settings(second)
                nframes = 2
            o = s.feed(buf)
            r.step('recv SETTINGS', pairs, second, o.brief())
            if not o.ok:
                r.violate('C11:valid-settings-rejected:%s' % o.exc_name, repr(pairs))
                break
            evs = [e for e in o.events if e[0] == 'RemoteSettingsChanged']
            want = [sorted((k, remote.get(k), v) for k, v in pairs)]
            for k, v in pairs:
                remote[k] = v
            if second:
                want.append(sorted((k, remote.get(k), v) for k, v in second))
                for k, v in second:
                    remote[k] = v
            if [e[1] for e in evs] != want:
                r.violate('C11:RemoteSettingsChanged-wrong', 'want %r got %r' % (want, [e[1] for e in evs]))
                break
            acks = [f for f in o.frames if f.type == wire.SETTINGS and f.f['ack']]
            if len(acks) != nframes or any(f.problems for f in acks):
                r.violate('C11:received-settings-not-acked-once', repr(o.frames))
                break
            # effective immediately
            if s.c.max_outbound_frame_size != remote[5]:
                r.violate('C11:remote-frame-size-not-immediate', '%r vs %r' % (s.c.max_outbound_frame_size, remote[5]))
            for k, v in remote.items():
                try:
                    got = s.c.remote_settings[k]
                except KeyError:
                    got = None
                if got != v:
                    r.violate('C11:remote-setting-not-immediate', 'key %d library %r model %r' % (k, got, v))
                    break
            r.labels.add('recv-settings')
        else:
            s.feed(wire.ping(b'\0' * 8))
        if not real_violation():
            probes('after-' + op)
    if s.out_problems:
        r.violate('C11:malformed-output', repr(s.out_problems))
    r.nontrivial = two_outstanding or raised_then_ok
    if two_outstanding:
        r.labels.add('two-outstanding-at-ack')
    if raised_then_ok:
        r.labels.add('raise-then-success')
    if diverged:
        r.labels.add('deviation-K02-observed')
    return r


def _k02():
    s = Solo(True)
    s.call('initiate_connection')
    s.feed(wire.settings())
    s.call('update_settings', {3: 5})
    o = s.feed(wire.settings(ack=True))          # acknowledges the initial frame only
    acks = [e for e in o.events if e[0] == 'SettingsAcknowledged']
    return [DEVIATION] if acks and acks[0][1] else []


def _f13():
    s = Solo(True)
    s.start()
    o = s.call('update_settings', {1: 0, 2: 7})
    o2 = s.feed(wire.settings(ack=True))
    acks = [e for e in o2.events if e[0] == 'SettingsAcknowledged']
    return ['C11:acknowledgement-reports-wrong-changes'] if (o.ok or (acks and acks[0][1])) else []


FINDINGS = {'K02-ack-applies-one-pending-value-per-key': _k02, 'F13-update-settings-partial-application': _f13}
