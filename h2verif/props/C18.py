"""C18 Every connection error emits exactly one GOAWAY with the RFC-mandated code."""
from hpack import Encoder

from .. import wire, bytesgen
from ..choose import Chooser
from ..runner import Result
from ..drive import Endpoint
from ..hpackmirror import raw_block, indexed, table_size_update

ID = 'C18'
LEVEL = 'exploration'
ENGINE = 'E2 solo'
TECHNIQUE = ('property-based testing: per-category generators of violating peer input (each labelled with its '
             'RFC error code) after generated valid prefixes, plus a GOAWAY-accounting monitor over mutated traffic')
RULE = ('cases: (a) a valid peer-model prefix that opens and closes streams, then one violating input drawn from '
        '~45 generators grouped by RFC category (FRAME_SIZE_ERROR, FLOW_CONTROL_ERROR, STREAM_CLOSED, '
        'COMPRESSION_ERROR, ENHANCE_YOUR_CALM, PROTOCOL_ERROR; among them payload/content-length mismatches on request, response and pushed streams, optionally with enlarged windows, and any violation right behind the acknowledgement that raises our MAX_FRAME_SIZE in the same call), oracle: the call raises ProtocolError, appends '
        'exactly one GOAWAY whose code equals the exception code and the category code and whose last-stream-id is '
        'the highest peer-opened id, and every later raising receive_data on the closed connection again appends '
        'exactly one GOAWAY carrying its exception code; (b) mutated traffic as in C17 with the accounting monitor only; non-trivial = '
        'violation delivered after a prefix that opened >= 2 peer streams (a), or a raising mutated stream with '
        '>= 2 frames (b); distinct by concrete trace')
ASSUMPTIONS = ['category codes follow DESIGN.md Appendix C; the GOAWAY last-stream-id may or may not include a '
               'stream whose opening frame is itself the violation']
TIERS = {'quick': {'cases': 8000, 'size': 300},
         'thorough': {'cases': 1500000, 'size': 400}}

P, FC, SC, FS, CE, EYC = (wire.PROTOCOL_ERROR, wire.FLOW_CONTROL_ERROR, wire.STREAM_CLOSED, wire.FRAME_SIZE_ERROR,
                          wire.COMPRESSION_ERROR, wire.ENHANCE_YOUR_CALM)
REQ = bytesgen.REQ
POST = bytesgen.POST
RESP = [(b':status', b'200')]


class Ctx:
    """State handed to violation generators."""

    def __init__(self, ch, ep, client, enc, highest_peer, next_peer_sid, open_sid):
        self.ch = ch
        self.ep = ep
        self.client = client
        self.enc = enc                  # peer-side encoder, in sync with the endpoint's decoder
        self.highest = highest_peer
        self.next_sid = next_peer_sid   # next id the peer may open (odd at a server)
        self.open_sid = open_sid        # a stream on which the peer may send DATA, or None
        self.opens = None               # id opened by the violating input itself, if any
        self.ended_sid = None           # a peer-initiated / promised stream that ended normally in both directions
        self.frame_limit = 16384        # our MAX_FRAME_SIZE once every acknowledgement in the input has been seen
        self.big_windows = False        # connection window and INITIAL_WINDOW_SIZE enlarged (acknowledged) in the prefix
        self.pushed_reserved = []       # client: promised streams whose response has not started


def v_oversize_frame(c):
    t = c.ch.pick([wire.DATA, wire.PING, wire.SETTINGS, 0x42, wire.HEADERS])
    sid = 0 if t in (wire.PING, wire.SETTINGS) else (c.open_sid or 1)
    return wire.raw(t, 0, sid, b'\0' * (c.frame_limit + 1))


def v_ping_len(c):
    return wire.raw(wire.PING, 0, 0, b'\0' * c.ch.pick([0, 7, 9, 16]))


def v_rst_len(c):
    return wire.raw(wire.RST_STREAM, 0, c.open_sid or 1, b'\0' * c.ch.pick([0, 3, 5, 8]))


def v_wu_len(c):
    return wire.raw(wire.WINDOW_UPDATE, 0, c.ch.pick([0, c.open_sid or 1]), b'\0\0\1' + b'\0' * c.ch.pick([0, 2, 5]))


def v_prio_len(c):
    return wire.raw(wire.PRIORITY, 0, c.ch.pick([1, 3, 99]), b'\0' * c.ch.pick([0, 4, 6, 10]))


def v_settings_len(c):
    return wire.raw(wire.SETTINGS, 0, 0, b'\0\3\0\0\0\5' + b'\0' * c.ch.pick([1, 3, 5]))


def v_settings_ack_payload(c):
    return wire.raw(wire.SETTINGS, wire.F_ACK, 0, b'\0\3\0\0\0\5' * c.ch.pick([1, 2]))


def v_goaway_len(c):
    return wire.raw(wire.GOAWAY, 0, 0, b'\0' * c.ch.pick([0, 4, 7]))


def v_push_len(c):
    if not c.client or not c.open_sid:
        return None
    return wire.raw(wire.PUSH_PROMISE, wire.F_END_HEADERS, c.open_sid, b'\0' * c.ch.pick([0, 3]))


def v_data_overrun(c):
    if not c.open_sid:
        return None
    return b''.join(wire.data(c.open_sid, b'z' * 16384) for _ in range(4))


def v_conn_window_overflow(c):
    return wire.window_update(0, 2**31 - 1)


def v_iws_too_big(c):
    return wire.settings([(wire.S_INITIAL_WINDOW_SIZE, c.ch.pick([2**31, 2**32 - 1]))])


def v_iws_overflows_stream(c):
    if not c.open_sid:
        return None
    return wire.window_update(c.open_sid, 2**31 - 1 - 65535) + \
        wire.settings([(wire.S_INITIAL_WINDOW_SIZE, 65536 + c.ch.pick([0, 1, 1000]))])


def v_bad_hpack(c):
    k = c.ch.pick(['bad-index', 'index-zero', 'truncated-int', 'truncated-string', 'table-size-big',
                   'table-size-mid', 'huge-len'])
    blk = {'bad-index': indexed(c.ch.pick([62, 100, 70000])), 'index-zero': b'\x80',
           'truncated-int': b'\xff\xff\xff', 'truncated-string': b'\x00\x05ab',
           'table-size-big': table_size_update(c.ch.pick([4097, 2**20])) + raw_block([(b':status', b'200')]),
           'table-size-mid': raw_block(RESP if c.client else REQ) + table_size_update(64),
           'huge-len': b'\x00\x7f\xff\xff\xff\x0f'}[k]
    if c.client:
        if not c.open_sid:
            return None
        return wire.headers(c.open_sid, blk)
    c.opens = c.next_sid
    return wire.headers(c.next_sid, blk)


def v_header_list_too_big(c):
    # 70 literal fields of 1000 bytes = > 65536 by the RFC 7541 s4.1 measure, in 6 frames
    fields = [(b'x-%d' % i, b'v' * 1000) for i in range(70)]
    hs = (RESP if c.client else REQ) + fields
    blk = raw_block(hs)
    parts = [blk[i:i + 14000] for i in range(0, len(blk), 14000)]
    sid = c.open_sid if c.client else c.next_sid
    if sid is None:
        return None
    if not c.client:
        c.opens = sid
    out = wire.headers(sid, parts[0], end_headers=False)
    for i, p in enumerate(parts[1:]):
        out += wire.continuation(sid, p, end_headers=(i == len(parts) - 2))
    return out


def v_stream_zero(c):
    t = c.ch.pick(['data', 'headers', 'rst', 'prio', 'continuation'])
    if t == 'data':
        return wire.data(0, b'x')
    if t == 'headers':
        return wire.headers(0, raw_block(RESP if c.client else REQ))
    if t == 'rst':
        return wire.rst_stream(0, 0)
    if t == 'prio':
        return wire.priority(0, 1, 16)
    return wire.continuation(0, b'')


def v_nonzero_conn_frame(c):
    t = c.ch.pick(['settings', 'ping', 'goaway'])
    sid = c.ch.pick([1, 2, 99])
    if t == 'settings':
        return wire.raw(wire.SETTINGS, 0, sid, b'')
    if t == 'ping':
        return wire.raw(wire.PING, 0, sid, b'\0' * 8)
    return wire.raw(wire.GOAWAY, 0, sid, b'\0' * 8)


def v_zero_increment(c):
    return wire.raw(wire.WINDOW_UPDATE, 0, 0, b'\0\0\0\0')


def v_padding_too_long(c):
    if not c.open_sid:
        return None
    return wire.raw(wire.DATA, wire.F_PADDED, c.open_sid, bytes([c.ch.pick([5, 200])]) + b'abc')


def v_data_idle(c):
    sid = c.next_sid + 2 * c.ch.int(0, 3) if not c.client else c.ch.pick([2, 4, 99, 101]) + 1000
    # (a payload that only the raised frame-size limit allows, when the prefix has raised it)
    return wire.data(sid, b'x' * (20000 if c.frame_limit > 20000 and c.ch.bool() else 1))


def v_wrong_parity_open(c):
    if c.client:
        return None
    return wire.headers(c.ch.pick([2, 4, 1000]), c.enc.encode(REQ))


def v_low_id_open(c):
    # an id below the watermark that was never used: only available if the prefix skipped ids
    return None


def v_naked_continuation(c):
    return wire.continuation(c.next_sid if not c.client else 1001, b'\x82')


def v_interleaved_block(c):
    sid = c.open_sid if c.client else c.next_sid
    if sid is None:
        return None
    if not c.client:
        c.opens = sid
    blk = raw_block(RESP if c.client else REQ)
    other = c.ch.pick([wire.ping(b'\0' * 8), wire.window_update(0, 1), wire.settings(),
                       wire.continuation(sid + 2, b''), wire.raw(0x42, 0, 0, b'')])
    return wire.headers(sid, blk[:3], end_headers=False) + other


def v_too_many_continuations(c):
    sid = c.open_sid if c.client else c.next_sid
    if sid is None:
        return None
    if not c.client:
        c.opens = sid
    out = wire.headers(sid, b'', end_headers=False)
    for _ in range(70):
        out += wire.continuation(sid, b'', end_headers=False)
    return out


def v_bad_pseudo(c):
    sid = c.open_sid if c.client else c.next_sid
    if sid is None:
        return None
    if not c.client:
        c.opens = sid
    bad = c.ch.pick([[(b':foo', b'x')], [(b'X-Upper', b'v')], [(b'connection', b'close')], [(b'te', b'gzip')]])
    if c.client:
        hs = RESP + bad if bad[0][0][:1] != b':' else bad + RESP
    else:
        hs = REQ + bad if bad[0][0][:1] != b':' else bad + REQ
    return wire.headers(sid, c.enc.encode(hs))


def v_bad_setting(c):
    return wire.settings([c.ch.pick([(wire.S_ENABLE_PUSH, 2), (wire.S_MAX_FRAME_SIZE, 100),
                                     (wire.S_MAX_FRAME_SIZE, 2**24), (wire.S_ENABLE_CONNECT_PROTOCOL, 7)])])


def v_push_to_server(c):
    if c.client or not c.open_sid:
        return None
    return wire.push_promise(c.open_sid, 2, c.enc.encode(REQ))


def v_priority_self_dependency(c):
    sid = c.ch.pick([1, 3, 77])
    return wire.priority(sid, sid, 16)


def v_headers_self_dependency(c):
    if c.client:
        return None
    c.opens = c.next_sid
    return wire.headers(c.next_sid, c.enc.encode(REQ), priority=(c.next_sid, 16, False))


def v_informational_end_stream(c):
    if not c.client or not c.open_sid:
        return None
    return wire.headers(c.open_sid, c.enc.encode([(b':status', b'100')]), end_stream=True)


def v_data_before_headers(c):
    if not c.client or not c.open_sid:
        return None
    return wire.data(c.open_sid, b'x')


def v_trailers_without_end_stream(c):
    if c.client or not c.open_sid:
        return None
    return wire.headers(c.open_sid, c.enc.encode([(b'x-t', b'1')]))


def v_headers_after_end_stream(c):
    """HEADERS on a stream that both sides ended (closed, not reset): STREAM_CLOSED, whether or not the closed
    stream has been cleaned out of the stream table in the meantime."""
    if c.ended_sid is None:
        return None
    if c.ch.bool():
        _ = c.ep.c.open_inbound_streams, c.ep.c.open_outbound_streams   # public properties; trigger clean-up
    hs = RESP if c.client else REQ
    if c.client and c.ch.chance(80):
        hs = [(b':status', c.ch.pick([b'100', b'103']))]      # an informational block is no different
    elif c.ch.chance(40):
        hs = [(b'x-trailer', b'1')]
    # (a 1xx block with END_STREAM would be malformed in its own right: PROTOCOL_ERROR would be as good an answer)
    es = c.ch.bool() and hs[0][1][:1] != b'1'
    return wire.headers(c.ended_sid, c.enc.encode(hs), end_stream=es)


def v_body_length(c):
    """A message whose payload differs from its declared content-length (malformed, RFC 7540 s8.1.2.6): too long
    (noticed with the frame that exceeds it) or too short (noticed at END_STREAM); on a new request stream at a
    server, on the awaited response or on a pushed response at a client.  With the windows enlarged in the prefix
    the body may be larger than the default window and still inside what we advertised."""
    big = c.big_windows and c.ch.bool()
    declared = 70000 if big else c.ch.pick([0, 3, 5, 1000])
    if c.client:
        if c.pushed_reserved and c.ch.bool():
            sid = c.ch.pick(c.pushed_reserved)
        elif c.open_sid:
            sid = c.open_sid
        else:
            return None
        out = wire.headers(sid, c.enc.encode([(b':status', b'200'), (b'content-length', b'%d' % declared)]))
    else:
        sid = c.next_sid
        c.opens = sid
        out = wire.headers(sid, c.enc.encode(POST + [(b'content-length', b'%d' % declared)]))
    if big:
        return out + b''.join(wire.data(sid, b'b' * 16000) for _ in range(5))        # 80000 > 70000
    if declared and c.ch.bool():
        return out + wire.data(sid, b'b' * (declared - 1), end_stream=True)           # too short
    return out + wire.data(sid, b'b' * (declared + 1), end_stream=c.ch.bool())        # too long


VIOLATIONS = [
    ('body-differs-from-content-length', P, v_body_length),
    ('oversize-frame', FS, v_oversize_frame), ('ping-length', FS, v_ping_len), ('rst-length', FS, v_rst_len),
    ('window-update-length', FS, v_wu_len), ('priority-length', FS, v_prio_len),
    ('settings-length', FS, v_settings_len), ('settings-ack-with-payload', FS, v_settings_ack_payload),
    ('goaway-length', FS, v_goaway_len), ('push-promise-length', FS, v_push_len),
    ('data-overruns-window', FC, v_data_overrun), ('connection-window-overflow', FC, v_conn_window_overflow),
    ('initial-window-too-big', FC, v_iws_too_big), ('initial-window-overflows-stream', FC, v_iws_overflows_stream),
    ('undecodable-header-block', CE, v_bad_hpack), ('header-list-too-big', EYC, v_header_list_too_big),
    ('frame-on-stream-zero', P, v_stream_zero), ('connection-frame-on-stream', P, v_nonzero_conn_frame),
    ('zero-window-increment', P, v_zero_increment), ('padding-too-long', P, v_padding_too_long),
    ('data-on-idle-stream', P, v_data_idle), ('wrong-parity-open', P, v_wrong_parity_open),
    ('naked-continuation', P, v_naked_continuation), ('interleaved-header-block', P, v_interleaved_block),
    ('too-many-continuations', P, v_too_many_continuations), ('bad-header-block', P, v_bad_pseudo),
    ('invalid-setting', P, v_bad_setting), ('push-promise-to-server', P, v_push_to_server),
    ('priority-self-dependency', P, v_priority_self_dependency),
    ('headers-self-dependency', P, v_headers_self_dependency),
    ('informational-with-end-stream', P, v_informational_end_stream),
    ('data-before-response-headers', P, v_data_before_headers),
    ('trailers-without-end-stream', P, v_trailers_without_end_stream),
    ('headers-after-end-stream', SC, v_headers_after_end_stream),
]
BY_NAME = {n: (code, fn) for n, code, fn in VIOLATIONS}


def valid_prefix(ch, client):
    """A small valid conversation; returns (endpoint, ctx pieces)."""
    ep = Endpoint(client)
    enc = Encoder()
    ep.call('initiate_connection')
    data = (b'' if client else wire.PREFACE) + wire.settings() + wire.settings(ack=True)
    o = ep.recv(data)
    assert o.ok
    n = ch.int(0, 5)
    highest = 0
    open_sid = None
    steps = []
    if client:
        next_push = 2
        for i in range(n):
            sid = 1 + 2 * i
            ep.call('send_headers', sid, POST)
            kind = ch.int(0, 6)
            steps.append((sid, kind))
            if kind == 0:
                open_sid = sid                      # awaiting response
            elif kind == 1:
                ep.recv(wire.headers(sid, enc.encode(RESP)))
                open_sid = sid
            elif kind == 2:
                ep.recv(wire.headers(sid, enc.encode(RESP), end_stream=True))
            elif kind == 3:
                o = ep.recv(wire.push_promise(sid, next_push, enc.encode(REQ)))
                highest = next_push
                if ch.bool():
                    # the pushed response, complete: the promised stream is closed by END_STREAM
                    ep.recv(wire.headers(next_push, enc.encode(RESP), end_stream=True))
                    steps.append((next_push, 'pushed-and-ended'))
                next_push += 2
                open_sid = sid
            elif kind == 6:
                ep.call('reset_stream', sid, 8)          # cancelled by the application
            elif kind == 5:
                # request and response both complete: closed by END_STREAM in both directions
                ep.call('end_stream', sid)
                ep.recv(wire.headers(sid, enc.encode(RESP), end_stream=True))
                steps.append((sid, 'pushed-and-ended'))     # (same category: ended normally, not reset)
            else:
                ep.recv(wire.rst_stream(sid, 8))
        next_sid = 1 + 2 * n
        # after kind 0 the stream awaits a response: DATA on it would be a different violation
        data_sid = None
        for sid, kind in steps:
            if kind == 1:
                data_sid = sid
        return ep, enc, highest, next_sid, open_sid, data_sid, steps
    next_sid = 1
    data_sid = None
    for i in range(n):
        sid = next_sid
        next_sid += 2
        kind = ch.int(0, 4)
        steps.append((sid, kind))
        highest = sid
        if kind == 0:
            ep.recv(wire.headers(sid, enc.encode(POST)))
            open_sid = data_sid = sid
        elif kind == 1:
            ep.recv(wire.headers(sid, enc.encode(REQ), end_stream=True))
            ep.call('send_headers', sid, RESP, end_stream=True)
        elif kind == 4:
            ep.recv(wire.headers(sid, enc.encode(POST)))
            ep.call('reset_stream', sid, 8)              # refused by the application
        elif kind == 2:
            ep.recv(wire.headers(sid, enc.encode(POST)))
            ep.recv(wire.rst_stream(sid, 8))
        else:
            ep.recv(wire.headers(sid, enc.encode(POST)))
            ep.recv(wire.data(sid, b'abc', end_stream=True))
    if ch.bool():
        ep.c.open_inbound_streams   # public property: triggers clean-up of closed streams
    return ep, enc, highest, next_sid, open_sid, data_sid, steps


def check_goaway(r, o, want_code, highest, opens, tag):
    frames, rest = wire.parse_all(o.out)
    goaways = [f for f in frames if f.type == wire.GOAWAY]
    if rest:
        r.violate('C18:unparsable-output:%s' % tag, rest.hex())
    if len(goaways) != 1:
        r.violate('C18:goaway-count=%d:%s' % (len(goaways), tag), repr(frames))
        return
    g = goaways[0]
    if frames[-1] is not g:
        r.violate('C18:frames-after-goaway:%s' % tag, repr(frames))
    if g.problems:
        r.violate('C18:malformed-goaway:%s' % tag, repr(g))
        return
    if g.f['code'] != o.code:
        r.violate('C18:goaway-code-differs-from-exception:%s' % tag, '%r vs %r' % (g.f['code'], o.code))
    if want_code is not None and o.code != want_code:
        r.violate('C18:code:%s:got=%s:want=%s' % (tag, o.code, want_code), '')
    if highest is not None:
        allowed = {highest}
        if opens is not None:
            allowed.add(max(highest, opens))
        if g.f['last'] not in allowed:
            r.violate('C18:last-stream-id:%s' % tag, 'got %d, peer opened up to %d' % (g.f['last'], highest))


def run_violation(r, ch, client, name):
    code, fn = BY_NAME[name]
    ep, enc, highest, next_sid, open_sid, data_sid, steps = valid_prefix(ch, client)
    c = Ctx(ch, ep, client, enc, highest, next_sid, open_sid)
    ended = [sid for sid, kind in steps if kind == ('pushed-and-ended' if client else 1)]
    c.ended_sid = ch.pick(ended) if ended else None
    if name in ('data-overruns-window', 'padding-too-long', 'trailers-without-end-stream'):
        c.open_sid = data_sid
    if name == 'data-before-response-headers':
        c.open_sid = next((sid for sid, kind in steps if kind == 0), None)
    if name in ('informational-with-end-stream', 'body-differs-from-content-length'):
        c.open_sid = next((sid for sid, kind in steps if kind == 0), None)
    if client:
        promised = [2 * (i + 1) for i in range(sum(1 for _, kind in steps if kind == 3))]
        c.pushed_reserved = [p_ for p_ in promised if (p_, 'pushed-and-ended') not in steps]
    if name == 'body-differs-from-content-length' and ch.chance(100):
        # the application has enlarged the connection window and its INITIAL_WINDOW_SIZE, and the peer has
        # acknowledged: streams that exist already - promised ones included - can take more than 65535 bytes
        o1 = ep.call('increment_flow_control_window', 100000)
        o2 = ep.call('update_settings', {wire.S_INITIAL_WINDOW_SIZE: 131072})
        o3 = ep.recv(wire.settings(ack=True))
        if o1.ok and o2.ok and o3.ok:
            c.big_windows = True
            r.labels.add('windows-enlarged-in-prefix')
    ack_first = b''
    if ch.chance(56):
        # our own MAX_FRAME_SIZE has been raised and the peer's acknowledgement arrives in the same receive_data
        # call as the violating input, right in front of it: the new limit is in force for what follows the ACK,
        # so the violation is still the one it was (and an over-long frame is one by the new limit)
        o = ep.call('update_settings', {wire.S_MAX_FRAME_SIZE: 32768})
        if o.ok:
            ack_first = wire.settings(ack=True)
            c.frame_limit = 32768
            r.labels.add('limit-raised-by-ack-in-the-same-call')
            if ch.chance(80):
                # ... and taken back before the first change was acknowledged: two frames, two acknowledgements,
                # and the limit in force is the old one again
                o = ep.call('update_settings', {wire.S_MAX_FRAME_SIZE: 16384})
                if o.ok:
                    ack_first += wire.settings(ack=True)
                    c.frame_limit = 16384
                    r.labels.add('limit-raised-and-taken-back')
    data = fn(c)
    if data is None:
        return False
    data = ack_first + data
    o = ep.recv(data)
    r.step('client' if client else 'server', 'prefix', steps, 'violation', name, 'want', code, data, o.brief())
    if o.ok:
        r.violate('C18:not-rejected:%s' % name, repr(o.events)[:200])
        return True
    if not o.is_protocol_error():
        r.violate('C18:non-protocol-exception:%s:%s' % (o.exc_name, name), repr(o.exc))
        return True
    check_goaway(r, o, code, highest, c.opens, name)
    # the connection is closed now: whatever else arrives, every further raising receive_data still owes exactly
    # one GOAWAY carrying the code of its exception
    for _ in range(ch.int(0, 3)):
        if r.violations:
            break
        k = ch.pick(['ping', 'headers', 'data', 'settings', 'settings-ack', 'wu', 'rst', 'unknown', 'again'])
        sid = c.open_sid or 1
        more = {'ping': wire.ping(b'abcdefgh'), 'headers': wire.headers(next_sid + 10, raw_block(RESP if client else REQ)),
                'data': wire.data(sid, b'x'), 'settings': wire.settings([(3, 9)]), 'settings-ack': wire.settings(ack=True),
                'wu': wire.window_update(0, 1), 'rst': wire.rst_stream(sid, 8), 'unknown': wire.raw(0x55, 0, 0, b'u'),
                'again': data}[k]
        o2 = ep.recv(more)
        r.step('after closure', k, o2.brief())
        if o2.ok:
            if wire.parse_all(o2.out)[0]:
                r.violate('C18:output-without-error-after-closure:%s' % k, o2.out.hex()[:60])
            continue
        if not o2.is_protocol_error():
            r.violate('C18:non-protocol-exception:%s:after-closure:%s' % (o2.exc_name, k), repr(o2.exc))
            break
        check_goaway(r, o2, None, None, None, 'after-closure')
        r.labels.add('raised-again-after-closure')
    r.nontrivial = len([s for s in steps]) >= 2
    r.labels.add('category-%d' % code)
    return True


def run_case(data):
    ch = Chooser(data)
    r = Result()
    if ch.chance(72):
        return monitor_case(ch, r)
    client = ch.bool()
    for _ in range(6):
        name = ch.pick(VIOLATIONS)[0]
        if run_violation(r, ch, client, name):
            r.labels.add(name)
            break
    return r


def monitor_case(ch, r):
    """GOAWAY accounting over mutated traffic (no category oracle)."""
    sc = bytesgen.build(ch, big_frames=True)
    frames, labs = bytesgen.mutate_frames(ch, sc.frames, 0 if sc.client else 1)
    stream = b''.join(frames)
    if ch.chance(48):
        stream = bytesgen.mutate_bytes(ch, stream, 0 if sc.client else 24)
    ep = sc.endpoint()
    cuts = bytesgen.chunkings(ch, len(stream), 1)[0] if ch.bool() else []
    err = None
    for chunk in bytesgen.split(stream, cuts):
        o = ep.recv(chunk)
        if not o.ok:
            if err is None:
                err = o
            elif o.is_protocol_error():
                # a later chunk after the connection error: same accounting
                check_goaway(r, o, None, None, None, 'mutated-traffic-after-closure')
                r.labels.add('raised-again-after-closure')
            else:
                break
            continue
        if any(f.type == wire.GOAWAY for f in wire.parse_all(o.out)[0]):
            r.violate('C18:goaway-without-error', '')
    nfr = len(wire.frame_boundaries(stream[(0 if sc.client else 24):])) - 1
    r.step('monitor', 'client' if sc.client else 'server', labs, 'cuts', cuts, err.brief() if err else 'ok', stream)
    if err is not None and err.is_protocol_error():
        check_goaway(r, err, None, None, None, 'mutated-traffic')
        r.nontrivial = nfr >= 2
    r.labels.add('monitor')
    return r


def _scripted(name, client=False):
    r = Result()
    run_violation(r, Chooser(b''), client, name)
    return [k for k, _ in r.violations]


FINDINGS = {'K01-hpack-errors-reported-as-protocol-error': lambda: _scripted('undecodable-header-block'),
            'F12-settings-ack-payload-code': lambda: _scripted('settings-ack-with-payload')}
