"""C07 Received events per stream follow the HTTP message grammar for the role."""
from hpack import Encoder

from .. import wire, bytesgen
from ..choose import Chooser
from ..runner import Result
from ..drive import h2

ev = h2.events
ID = 'C07'
LEVEL = 'exploration'
ENGINE = 'E3 bytes'
TECHNIQUE = ('property-based testing / fuzzing: peer-model byte streams, structural and byte-level mutation, and '
             'free frame sequences (incl. illegal ones) delivered in drawn chunks; a per-stream grammar monitor over '
             'the returned event lists is the oracle')
RULE = ('cases: (a) valid peer traffic from the peer model (requests/responses, CONTINUATION chains, data, trailers, '
        'pushes, resets, priorities, settings) put through frame-level and byte-level mutators; (b) free sequences of '
        '4..30 frames on a handful of stream ids drawn without regard to legality: HEADERS (request / response / 1xx / '
        'trailers lists, with and without END_STREAM and priority), DATA, RST_STREAM, PUSH_PROMISE, WINDOW_UPDATE, '
        'PRIORITY, CONTINUATION, ALTSVC, incl. HEADERS on never-promised even streams and DATA before HEADERS; for clients optionally after local calls that were refused (trailers without END_STREAM, un-encodable header text on a new stream); both roles; '
        'chunked delivery until the first exception. Monitor per stream: only role-appropriate event classes; '
        'informational* final-headers data* trailers? StreamEnded?; no data before final headers; nothing of the message '
        'after StreamEnded; at most one StreamReset and only PriorityUpdated after it; related-event fields refer to '
        'an object later in the same list; trailers carry stream_ended; a client reports nothing on an even stream '
        'that was never promised. evaluations = receive_data calls; non-trivial = events for at least two streams or '
        'at least 4 stream events followed by an error; distinct by trace')
ASSUMPTIONS = ['WindowUpdated and PriorityUpdated are not part of the message grammar (allowed wherever the statement '
               'does not exclude them)']
TIERS = {'quick': {'cases': 16000, 'size': 400},
         'thorough': {'cases': 600000, 'size': 700, 'atheris_runs': 400000}}

REQ = bytesgen.REQ
RESP = [(b':status', b'200'), (b'server', b'x')]
INFO = [(b':status', b'103')]
TRAIL = [(b'x-t', b'1')]
MESSAGE = (ev.RequestReceived, ev.ResponseReceived, ev.InformationalResponseReceived, ev.TrailersReceived,
           ev.DataReceived, ev.StreamEnded)


class Monitor:
    def __init__(self, client, r):
        self.client = client
        self.r = r
        self.st = {}            # sid -> dict
        self.promised = set()
        self.opened = None      # client: the odd ids it has opened, when the harness knows them
        self.stream_events = 0

    def bad(self, key, detail=''):
        self.r.violate('C07:%s:%s' % ('client' if self.client else 'server', key), detail)

    def feed(self, events):
        pos = {id(e): i for i, e in enumerate(events)}
        for i, e in enumerate(events):
            for attr in ('stream_ended', 'priority_updated'):
                rel = getattr(e, attr, None)
                if rel is not None:
                    j = pos.get(id(rel))
                    if j is None or j <= i:
                        self.bad('related-event-not-later-in-list:%s.%s' % (type(e).__name__, attr), repr(events))
                    elif getattr(rel, 'stream_id', None) != getattr(e, 'stream_id', None):
                        self.bad('related-event-for-other-stream:%s.%s' % (type(e).__name__, attr), repr(events))
            if isinstance(e, ev.TrailersReceived) and e.stream_ended is None:
                self.bad('trailers-without-stream_ended', repr(events))
            self.one(e)

    def one(self, e):
        n = type(e).__name__
        if isinstance(e, ev.PushedStreamReceived):
            if not self.client:
                self.bad('server-reported:' + n)
            s = self.st.setdefault(e.parent_stream_id, self.new())
            if s['reset']:
                self.bad('event-after-StreamReset:' + n)
            if e.pushed_stream_id in self.promised or e.pushed_stream_id % 2:
                self.bad('push-of-used-or-odd-stream-id')
            self.promised.add(e.pushed_stream_id)
            self.stream_events += 1
            return
        sid = getattr(e, 'stream_id', None)
        if not sid or isinstance(e, (ev.PriorityUpdated, ev.WindowUpdated)):
            if isinstance(e, ev.WindowUpdated) and sid and self.st.get(sid, {}).get('reset'):
                self.bad('event-after-StreamReset:' + n)
            return
        if not isinstance(e, MESSAGE + (ev.StreamReset,)):
            return
        self.stream_events += 1
        s = self.st.setdefault(sid, self.new())
        if self.client and sid % 2 == 0 and sid not in self.promised:
            self.bad('event-on-never-promised-stream:' + n)
        if not self.client and sid % 2 == 0:
            self.bad('event-on-even-stream:' + n)
        if self.client and sid % 2 == 1 and self.opened is not None and sid not in self.opened:
            self.bad('event-on-never-opened-stream:' + n)
        if s['reset']:
            self.bad('event-after-StreamReset:' + n)
            return
        if isinstance(e, ev.StreamReset):
            s['reset'] = True
            return
        if s['ended']:
            self.bad('event-after-StreamEnded:' + n)
            return
        if isinstance(e, ev.RequestReceived):
            if self.client:
                self.bad('client-reported:' + n)
            if s['final']:
                self.bad('second-final-headers:' + n)
            s['final'] = True
        elif isinstance(e, ev.ResponseReceived):
            if not self.client:
                self.bad('server-reported:' + n)
            if s['final']:
                self.bad('second-final-headers:' + n)
            s['final'] = True
        elif isinstance(e, ev.InformationalResponseReceived):
            if not self.client:
                self.bad('server-reported:' + n)
            if s['final']:
                self.bad('informational-after-final-headers')
        elif isinstance(e, ev.DataReceived):
            if not s['final']:
                self.bad('data-before-final-headers')
            if s['trailers']:
                self.bad('data-after-trailers')
        elif isinstance(e, ev.TrailersReceived):
            if not s['final']:
                self.bad('trailers-before-final-headers')
            if s['trailers']:
                self.bad('second-trailers')
            s['trailers'] = True
        elif isinstance(e, ev.StreamEnded):
            s['ended'] = True

    @staticmethod
    def new():
        return {'final': False, 'trailers': False, 'ended': False, 'reset': False}


def free_sequence(ch, client):
    enc = Encoder()
    frames = [] if client else [wire.PREFACE]
    frames.append(wire.settings())
    frames.append(wire.settings(ack=True))
    sids = [1, 3, 5, 2, 4, 7]
    nxt = 1                     # next id the peer would open (server role) / promise (client role: even)
    promise = 2
    live = [1, 3, 5] if client else []
    ended = []                  # streams on which the peer has sent END_STREAM
    reset = []                  # streams the peer has reset
    answered = set()            # streams on which the peer has sent final response headers
    for _ in range(ch.int(4, 30)):
        if ch.chance(236):
            # a step a conforming peer could take
            lop = ch.weighted([(4, 'open'), (6, 'data'), (2, 'trailers'), (1, 'rst'), (2, 'push'), (1, 'info'),
                               (1, 'altsvc'), (1, 'probe-ended'), (2, 'probe-reset')])
            if lop == 'probe-reset':
                # after its own RST_STREAM (on an open, half-closed or still only promised stream) the peer goes on
                # as if nothing had happened: no second StreamReset, nothing of a message after the first
                unanswered = [x for x in live if x % 2 == 0 and x not in answered]
                if unanswered and ch.bool():
                    # a promised stream whose response has not started yet is reset first
                    sid = ch.pick(unanswered)
                    frames.append(wire.rst_stream(sid, 8))
                    live.remove(sid)
                    reset.append(sid)
                if reset:
                    sid = ch.pick(reset[-2:])
                    for _ in range(ch.int(1, 3)):
                        frames.append(ch.pick([wire.headers(sid, enc.encode(RESP if client else REQ),
                                                            end_stream=ch.bool()),
                                               wire.data(sid, b'late', end_stream=ch.bool()),
                                               wire.rst_stream(sid, 8),
                                               wire.headers(sid, enc.encode(TRAIL), end_stream=True)]))
                continue
            if lop == 'altsvc':
                # ALTSVC is legal on any stream and changes nothing about the message on it
                frames.append(wire.altsvc(ch.pick(live + ended + [0]), b'', b'h2=":443"'))
                continue
            if lop == 'probe-ended':
                # after its END_STREAM the peer sends a frame that is harmless on an ended stream, then DATA or
                # HEADERS again: nothing of the message may be reported a second time
                if ended:
                    sid = ch.pick(ended)
                    frames.append(ch.pick([wire.altsvc(sid, b'', b'h2=":443"'), wire.window_update(sid, 10),
                                           wire.priority(sid, 0, 16, False)]))
                    frames.append(wire.data(sid, b'late', end_stream=ch.bool()) if ch.bool() else
                                  wire.headers(sid, enc.encode(TRAIL), end_stream=True))
                continue
            if lop == 'open':
                if client:
                    if not live:
                        continue
                    sid = ch.pick(live)
                    es = ch.chance(40)
                    answered.add(sid)
                    frames.append(wire.headers(sid, enc.encode(RESP), end_stream=es))
                    if es and ch.chance(230):
                        live.remove(sid)
                        ended.append(sid)
                else:
                    sid, nxt = nxt, nxt + 2
                    live.append(sid)
                    frames.append(wire.headers(sid, enc.encode(REQ), end_stream=ch.chance(60)))
            elif lop == 'push' and client and live:
                frames.append(wire.push_promise(ch.pick(live), promise, enc.encode(REQ)))
                live.append(promise)
                promise += 2
            elif lop == 'info' and client and live:
                frames.append(wire.headers(ch.pick(live), enc.encode(INFO)))
            elif live:
                sid = ch.pick(live)
                es = True
                if lop == 'trailers':
                    frames.append(wire.headers(sid, enc.encode(TRAIL), end_stream=True))
                elif lop == 'rst':
                    frames.append(wire.rst_stream(sid, 8))
                else:
                    es = ch.chance(50)
                    frames.append(wire.data(sid, b'd' * ch.int(0, 5), end_stream=es))
                if es and ch.chance(230):
                    live.remove(sid)
                    if lop != 'rst':
                        ended.append(sid)
                    else:
                        reset.append(sid)
            continue
        sid = ch.pick(sids)
        op = ch.weighted([(8, 'headers'), (7, 'data'), (2, 'rst'), (3, 'push'), (1, 'wu'), (1, 'prio'), (1, 'cont'),
                          (2, 'altsvc')])
        if op == 'headers':
            hs = ch.weighted([(4, RESP if client else REQ), (2, REQ if client else RESP), (2, INFO), (3, TRAIL)])
            prio = (ch.pick([0, 1, 3]), ch.int(1, 256), ch.bool()) if ch.chance(40) else None
            if prio and prio[0] == sid:
                prio = None
            frames.append(wire.headers(sid, enc.encode(hs), end_stream=ch.chance(100), priority=prio))
        elif op == 'data':
            frames.append(wire.data(sid, b'd' * ch.int(0, 5), end_stream=ch.chance(70)))
        elif op == 'rst':
            frames.append(wire.rst_stream(sid, ch.pick([0, 8])))
        elif op == 'push':
            frames.append(wire.push_promise(sid, ch.pick([2, 4, 6, 8, 3]), enc.encode(REQ)))
        elif op == 'wu':
            frames.append(wire.window_update(ch.pick([0, sid]), ch.int(1, 100)))
        elif op == 'prio':
            frames.append(wire.priority(sid, 0, 16, False))
        elif op == 'altsvc':
            frames.append(wire.altsvc(ch.pick([sid, sid, 0]), ch.pick([b'', b'example.com']), b'h2=":443"'))
        else:
            frames.append(wire.continuation(sid, b''))
    return frames


def run_case(data):
    ch = Chooser(data)
    r = Result()
    mode = ch.weighted([(6, 'free'), (3, 'model+frames'), (2, 'model+bytes'), (1, 'model'), (3, 'model+blocks')])
    if mode == 'free':
        client = ch.bool()
        sc = bytesgen.Scenario()
        sc.client = client
        sc.prefix.append(('initiate_connection', (), {}))
        idle_client = client and ch.chance(28)
        if idle_client:
            # a client that has not sent a request yet, facing a peer that talks to it as if it were a server:
            # whatever arrives, a client reports no request (and nothing on streams it never opened)
            opened = set()
            r.labels.add('client-without-requests')
        elif client:
            opened = {1, 3, 5}
            for sid in (1, 3, 5):
                es = ch.chance(60)
                sc.prefix.append(('send_headers', (sid, REQ), {'end_stream': es}))
                if not es and ch.chance(48):
                    # a local call that is refused (trailers without END_STREAM / with a pseudo-header): what
                    # the peer is then allowed to make us report on that stream does not change
                    bad = ch.pick([((sid, [(b'x-t', b'1')]), {}),
                                   ((sid, [(b'x-t', b'1'), (b':status', b'200')]), {'end_stream': True})])
                    sc.prefix.append(('send_headers', bad[0], bad[1], 'refused'))
                    r.labels.add('refused-local-call-in-prefix')
            if ch.chance(48):
                # the application has cancelled one of its requests: what the server still sends on it, or
                # promises on it, yields no event - and does not change what it may do on other streams
                sc.prefix.append(('reset_stream', (ch.pick([1, 3, 5]),), {}, 'refused'))
                r.labels.add('local-reset-in-prefix')
            if ch.chance(64):
                # a request that never left: header text that cannot be encoded (the call raises)
                sc.prefix.append(('send_headers', (7, REQ + [('x-bad-text', 'v\udcff')]), {}, 'refused'))
                r.labels.add('failed-open-in-prefix')
        frames = free_sequence(ch, client) if not idle_client else free_sequence(ch, False)[1:]
    else:
        opened = None
        sc = bytesgen.build(ch)
        frames = sc.frames
        if mode == 'model+frames':
            frames, _ = bytesgen.mutate_frames(ch, frames, 0 if sc.client else 1)
        elif mode == 'model+blocks':
            frames, _ = bytesgen.place_adversarial_blocks(ch, frames)
    stream = b''.join(frames)
    if mode == 'model+bytes':
        stream = bytesgen.mutate_bytes(ch, stream, 0 if sc.client else 24)
    cuts = bytesgen.chunkings(ch, len(stream), 1)[0] if ch.bool() else []
    # the message grammar is a matter of framing and stream state: it holds under every configuration of the
    # header-processing switches (half of the cases run with the defaults)
    cfgbits = ch.u8()
    if cfgbits & 1:
        sc.cfg = {'validate_inbound_headers': not cfgbits & 2, 'normalize_inbound_headers': not cfgbits & 4,
                  'header_encoding': 'utf-8' if cfgbits & 8 else None}
        r.labels.add('non-default-config')
    ep = sc.endpoint()
    mon = Monitor(sc.client, r)
    mon.opened = opened if sc.client else None
    err = None
    r.evals = 0
    for chunk in bytesgen.split(stream, cuts):
        r.evals += 1
        o = ep.recv(chunk)
        if not o.ok:
            err = o.exc_name
            if o.is_protocol_error():
                break
            # not a protocol error (C17 decides whether that may happen at all): the connection is not closed,
            # so whatever it reports next still has to read as a message
            r.labels.add('non-protocol-exception-then-more-input')
            continue
        mon.feed(o.raw_events)
        if r.violations:
            break
    r.evals = max(1, r.evals)
    r.step('role', 'client' if sc.client else 'server', 'mode', mode, 'prefix', [p[:2] for p in sc.prefix[1:]],
           'cuts', cuts, 'result', err or 'ok', stream)
    r.labels.add('mode-' + mode)
    r.labels.add('error' if err else 'no-error')
    streams = len(mon.st)
    r.nontrivial = streams >= 2 or (mon.stream_events >= 4 and err is not None)
    return r
