"""C15 Inbound header validation accepts exactly the conformant header blocks."""
from .. import wire, headers as H
from ..choose import Chooser
from ..runner import Result
from ..solo import Solo, REQ, RESP
from ..hpackmirror import raw_block

ID = 'C15'
LEVEL = 'exploration'
ENGINE = 'E2 solo'
TECHNIQUE = ('property-based testing: grammar-generated decoded header lists (valid skeleton + labelled defects, '
             'raw HPACK literals) vs. an independent RFC 7540 s8.1.2 conformance predicate')
RULE = ('cases: header list for a request / response / informational / trailer / pushed-request position built '
        'from a conformant skeleton plus 0..3 drawn defects over an adversarial byte alphabet (upper case, six '
        'ASCII whitespace bytes, empty names and values, NUL, 0x80+), encoded as raw HPACK literals, delivered to '
        'a client or server under validate x normalise x header_encoding in {None, utf-8, latin-1}, at a client after the request was left open, ended, finished with trailers or answered with a 1xx, and with the switches set on conn.config only after the stream\'s first block; non-trivial = exactly '
        'one defect (one step from conformant) or conformant with >= 2 cookie fields; distinct by concrete trace')
ASSUMPTIONS = ['dont-care zones (either verdict accepted): several Host fields, case variants of "trailers" in TE, '
               'plain CONNECT without :scheme/:path']
TIERS = {'quick': {'cases': 12000, 'size': 96},
         'thorough': {'cases': 1000000, 'size': 96}}

KINDS = ['request', 'response', 'informational', 'trailers', 'push']
EVENT = {'request': 'RequestReceived', 'response': 'ResponseReceived',
         'informational': 'InformationalResponseReceived', 'trailers': 'TrailersReceived',
         'push': 'PushedStreamReceived'}


def deliver(s, kind, block, client, hist=None, late_cfg=None):
    """Bring the endpoint to the position and feed the block; returns outcome.

    hist: what the client did with its request before the block arrives (None: left it open, 'request-ended':
    END_STREAM on the request, 'request-trailers': finished it with a trailer block, 'after-1xx': an informational
    response has already arrived).  late_cfg: inbound switches the application sets on conn.config after the first
    block on the stream has been received (the endpoint was created with them off)."""
    def switch():
        for k, v in (late_cfg or {}).items():
            setattr(s.c.config, k, v)
    if kind == 'request':
        switch()
        return s.feed(wire.headers(1, block))
    if client:
        s.call('send_headers', 1, REQ, end_stream=hist == 'request-ended')
        if hist == 'request-trailers':
            s.call('send_headers', 1, [(b'x-request-trailer', b'1')], end_stream=True)
    if kind == 'trailers':
        if client:
            s.feed(wire.headers(1, s.hblock(RESP)))
        else:
            s.feed(wire.headers(1, s.hblock(REQ)))
        switch()
        return s.feed(wire.headers(1, block, end_stream=True))
    if hist == 'after-1xx' or late_cfg:
        s.feed(wire.headers(1, s.hblock([(b':status', b'103')])))
    switch()
    if kind == 'push':
        return s.feed(wire.push_promise(1, 2, block))
    return s.feed(wire.headers(1, block))


def run_case(data):
    ch = Chooser(data)
    r = Result()
    kind = ch.pick(KINDS)
    validate = not ch.chance(40)
    normalize = not ch.chance(64)
    enc = ch.pick(['utf-8', 'utf-8', 'latin-1']) if ch.chance(80) else None
    if kind == 'request':
        client = False
    elif kind == 'trailers':
        client = ch.bool()
    else:
        client = True
    fs, defects = H.gen_fields(ch, kind)
    never = [ch.chance(24) for _ in fs]
    verdict, reasons = H.conformance(fs, kind)
    # a 1xx status turns a response position into an informational one and vice versa
    hist = ch.pick([None, None, 'request-ended', 'request-trailers', 'after-1xx']) if client else None
    late_cfg = None
    if ch.chance(24):
        # the application switches validation / normalisation on after the stream's first block has arrived
        late_cfg = {'validate_inbound_headers': validate, 'normalize_inbound_headers': normalize}
        s = Solo(client, validate_inbound_headers=False, normalize_inbound_headers=False, header_encoding=enc)
        r.labels.add('switches-set-after-first-block')
    else:
        s = Solo(client, validate_inbound_headers=validate, normalize_inbound_headers=normalize,
                 header_encoding=enc)
    if client and validate and normalize and enc is None and not late_cfg and ch.chance(128):
        # a connection built without a configuration object gets the defaults - whatever another such connection in
        # the same process does to its own configuration
        from ..drive import h2
        s = Solo(True, conn=h2.connection.H2Connection())
        decoy = h2.connection.H2Connection()
        decoy.config.validate_inbound_headers = False
        decoy.config.normalize_inbound_headers = False
        decoy.config.header_encoding = 'utf-8'
        r.labels.add('default-constructed-next-to-a-reconfigured-one')
    if ch.chance(24):
        # an assignment the configuration refuses (not a bool) leaves the switch as it was
        name = ch.pick(['validate_inbound_headers', 'normalize_inbound_headers'])
        try:
            setattr(s.c.config, name, ch.pick([None, 0, '', 1, 'yes']))
        except ValueError:
            r.labels.add('refused-config-assignment')
        else:
            r.violate('C15:non-bool-switch-accepted:%s' % name, '')
            return r
    s.start()
    block = raw_block([(n, v, nv) for (n, v), nv in zip(fs, never)])
    o = deliver(s, kind, block, client, hist, late_cfg)
    if hist:
        r.labels.add('history:' + hist)
    r.step(kind, 'client' if client else 'server', {'validate': validate, 'normalize': normalize, 'enc': enc},
           'history', hist, 'late switches' if late_cfg else '', fs, defects, verdict, reasons, o.brief())
    r.labels.add(kind)
    r.labels.add('verdict-' + verdict)
    cookies = sum(1 for n, _ in fs if n == b'cookie')
    r.nontrivial = len(defects) == 1 or (verdict == H.OK and cookies >= 2)
    if not o.ok and not o.is_protocol_error():
        r.violate('C15:non-protocol-exception:%s' % o.exc_name, '%r %r' % (reasons, fs))
        return r
    if not o.ok:
        goaways = [f for f in o.frames if f.type == wire.GOAWAY]
        if o.code != wire.PROTOCOL_ERROR or len(goaways) != 1 or goaways[0].f.get('code') != wire.PROTOCOL_ERROR:
            r.violate('C15:refusal-not-PROTOCOL_ERROR:%s' % o.code, repr(fs))
        undecodable = False
        if enc:
            try:
                for n, v in fs:
                    n.decode(enc), v.decode(enc)
            except UnicodeDecodeError:
                undecodable = True
        if validate and verdict == H.OK and not undecodable:
            r.violate('C15:conformant-refused:%s' % kind, '%r %r' % (fs, o.exc))
        if not validate and not undecodable:
            # without validation only the message grammar may refuse a block
            if kind == 'informational' or kind == 'response':
                pass
            else:
                r.labels.add('refused-without-validation')
        return r
    evs = [e for e in o.events if e[0] in EVENT.values()]
    if len(evs) != 1:
        r.violate('C15:no-single-header-event:%s' % kind, repr(o.events))
        return r
    e = evs[0]
    if validate and verdict == H.BAD:
        r.violate('C15:non-conformant-delivered:%s:%s' % (kind, reasons[0]), repr(fs))
        return r
    got = e[3] if e[0] == 'PushedStreamReceived' else e[2]
    want = H.expected_inbound([(n, v, nv) for (n, v), nv in zip(fs, never)], normalize)
    if enc:
        want = [(n.decode(enc), v.decode(enc), nv) for n, v, nv in want]
    got = [(bytes(n) if isinstance(n, (bytes, memoryview)) else n,
            bytes(v) if isinstance(v, (bytes, memoryview)) else v, nv) for n, v, nv in got]
    if got != want:
        r.violate('C15:delivered-headers-differ:%s' % ('normalised' if normalize else 'raw'),
                  'want %r got %r' % (want, got))
    return r


def _script(kind, client, fs, **cfg):
    s = Solo(client, **cfg)
    s.start()
    return deliver(s, kind, raw_block(fs), client)


def _f04():
    keys = []
    o = _script('response', True, [(b'cookie', b'a=b'), (b':status', b'200')])
    if o.ok:
        keys.append('C15:non-conformant-delivered:response:pseudo-after-regular')
    o = _script('request', False, list(REQ) + [(b'cookie', b'a=b'), (b'cookie', b'')])
    if not o.ok:
        keys.append('C15:conformant-refused:request')
    o = _script('request', False, list(REQ) + [(b'cookie', b'v'), (b'cookie', b' v')])
    if o.ok:
        keys.append('C15:non-conformant-delivered:request:value-whitespace')
    return keys


def _f05():
    o = _script('response', True, [(b':status', b'204'), (b'', b'v')])
    return [] if (not o.ok and o.is_protocol_error()) else ['C15:non-protocol-exception:%s' % o.exc_name]


def _f06():
    o = _script('response', True, [(b':status', b'200'), (b'x-bin', b'\x80')], header_encoding='utf-8')
    return [] if (not o.ok and o.is_protocol_error()) else ['C15:non-protocol-exception:%s' % o.exc_name]


FINDINGS = {'F04-cookies-joined-before-validation': _f04, 'F05-empty-header-name-indexerror': _f05,
            'F06-undecodable-header-unicodeerror': _f06}
