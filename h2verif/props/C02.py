"""C02 Emitted bytes are well-formed HTTP/2 that encode exactly the calls."""
import copy

from hpack import Encoder

from .. import wire, headers as H
from ..choose import Chooser
from ..runner import Result
from ..solo import Solo, REQ, RESP

ID = 'C02'
LEVEL = 'exploration'
ENGINE = 'E2 solo'
TECHNIQUE = ('property-based testing: generated API call programs, output parsed by an independent strict frame '
             'codec and compared with the abstract frame list each call specifies')
RULE = ('cases: programs (4..25 calls) in both roles after initiate_connection, peer SETTINGS announcing '
        'MAX_FRAME_SIZE in {2^14, 2^14+1, 2^15, 40000, 2^24-1} and HEADER_TABLE_SIZE, and changing MAX_FRAME_SIZE again later while streams are open or reserved; calls: send_headers (with and '
        'without priority weight/dependency/exclusive, END_STREAM; header lists sized by construction - measured on a '
        'shadow hpack.Encoder - to land within +-6 bytes of k x MAX_FRAME_SIZE), send_data (pad None/0..255), '
        'end_stream, push_stream and the response on the promised stream, prioritize, ping, reset_stream, increment_flow_control_window, update_settings, '
        'advertise_alternative_service, close_connection; the peer acknowledging our SETTINGS (a raised local MAX_FRAME_SIZE must not leak into what we send); trailers sized to a frame edge; non-trivial = a call that produced >= 2 frames, used '
        'priority or padding, or whose block is within 6 bytes of a frame-size multiple; distinct by trace')
ASSUMPTIONS = ['the shadow encoder used to size header lists is hpack.Encoder (trusted base) fed the same lists']
TIERS = {'quick': {'cases': 4000, 'size': 300},
         'thorough': {'cases': 200000, 'size': 400}}


def _prefix_len(n):
    """Bytes of an HPACK integer with a 7-bit prefix."""
    if n < 127:
        return 1
    n -= 127
    k = 2
    while n >= 128:
        n >>= 7
        k += 1
    return k


def sized_headers(ch, shadow, base, target):
    """Append a filler field so the encoded block has exactly ``target`` bytes (if reachable).

    'X' has an 8-bit Huffman code, so a filler value of n bytes encodes to n bytes plus its
    length prefix; only the small base list is measured on a copy of the shadow encoder."""
    b0 = len(copy.deepcopy(shadow).encode(base + [(b'x-fill', b'')]))
    n = max(0, target - b0)
    for _ in range(4):
        total = b0 - 1 + _prefix_len(n) + n
        if total == target or n == 0:
            break
        n = max(0, n + target - total)
    return base + [(b'x-fill', b'X' * n)]


def run_case(data):
    ch = Chooser(data)
    r = Result()
    client = ch.bool()
    s = Solo(client)
    mfs = ch.pick([16384, 16385, 32768, 40000, 16384, 2**24 - 1])
    hts = ch.pick([4096, 4096, 0, 256])
    o = s.call('initiate_connection')
    # preface + SETTINGS with the local values
    if client and not bytes(s.ep.sent).startswith(wire.PREFACE):
        r.violate('C02:client-preface-missing', bytes(s.ep.sent)[:30].hex())
        return r
    want0 = {1: 4096, 2: 1 if client else 0, 3: 100, 4: 65535, 5: 16384, 6: 65536, 8: 0}
    if len(o.frames) != 1 or o.frames[0].type != wire.SETTINGS or dict(o.frames[0].f['settings']) != want0 \
            or o.frames[0].f['ack']:
        r.violate('C02:initial-settings-wrong', repr(o.frames))
        return r
    peer = [(wire.S_MAX_FRAME_SIZE, mfs), (wire.S_HEADER_TABLE_SIZE, hts), (wire.S_INITIAL_WINDOW_SIZE, 2**24)]
    o = s.feed((b'' if client else wire.PREFACE) + wire.settings(peer) + wire.settings(ack=True) +
               wire.window_update(0, 2**30))
    s.note_peer_settings(peer)
    if not o.ok:
        r.violate('C02:harness:handshake-failed', o.brief())
        return r
    acks = [f for f in o.frames if f.type == wire.SETTINGS and f.f['ack']]
    if len(o.frames) != 1 or len(acks) != 1:
        r.violate('C02:handshake-reply-not-one-ack', repr(o.frames))
    shadow = Encoder()
    shadow.header_table_size = hts
    r.step('role', 'client' if client else 'server', 'peer MAX_FRAME_SIZE', mfs, 'HEADER_TABLE_SIZE', hts)
    next_local = 1 if client else 2
    next_peer = 1
    can_send = []        # streams on which we may send data
    awaiting = []        # server: streams needing response headers
    promised = []        # server: promised streams still reserved (local)
    closed = False
    nontrivial = False
    unacked = []         # our SETTINGS frames the peer has not acknowledged yet
    answered = set()     # client: streams on which the peer has sent response headers

    def expect_frames(o, want, what):
        """want: list of dicts with type, sid, flags(mask must equal), fields."""
        nonlocal nontrivial
        if len(o.frames) != len(want):
            r.violate('C02:frame-count:%s' % what, 'want %d got %r' % (len(want), o.frames))
            return False
        for f, w in zip(o.frames, want):
            if f.problems:
                r.violate('C02:malformed-frame:%s:%s' % (what, f.problems[0]), repr(f))
                return False
            if f.length > mfs:
                r.violate('C02:frame-exceeds-peer-max-frame-size:%s' % what, '%d > %d' % (f.length, mfs))
                return False
            if f.type != w['t'] or f.stream_id != w['sid'] or f.flags != w['fl']:
                r.violate('C02:wrong-header:%s' % what, 'want %r got %r' % (w, f))
                return False
            for k, v in w.get('f', {}).items():
                if f.f.get(k) != v:
                    r.violate('C02:wrong-field:%s:%s' % (what, k), 'want %r got %r' % (v, f.f.get(k)))
                    return False
        if len(o.frames) >= 2:
            nontrivial = True
        return True

    def header_call(what, o, sid, hdrs, end_stream, prio, promised=None):
        """Check HEADERS/PUSH_PROMISE + CONTINUATION* for one successful call."""
        nonlocal nontrivial
        fs = o.frames
        if not fs:
            r.violate('C02:no-frames:%s' % what, '')
            return
        first = fs[0]
        t = wire.PUSH_PROMISE if promised is not None else wire.HEADERS
        if first.type != t or first.stream_id != sid:
            r.violate('C02:wrong-header:%s' % what, repr(first))
            return
        for i, f in enumerate(fs):
            if f.problems:
                r.violate('C02:malformed-frame:%s:%s' % (what, f.problems[0]), repr(f))
                return
            if f.length > mfs:
                r.violate('C02:frame-exceeds-peer-max-frame-size:%s' % what,
                          '%s payload %d > %d (priority=%r, block=%d)' % (f.name, f.length, mfs, prio,
                                                                          first.f.get('full_block_len', -1)))
                return
            if i and (f.type != wire.CONTINUATION or f.stream_id != sid):
                r.violate('C02:header-block-not-contiguous:%s' % what, repr(fs))
                return
            if f.has(wire.F_END_HEADERS) != (i == len(fs) - 1):
                r.violate('C02:END_HEADERS-misplaced:%s' % what, repr(fs))
                return
            if i and f.flags & ~wire.F_END_HEADERS:
                r.violate('C02:continuation-flags:%s' % what, repr(f))
                return
        if promised is None:
            if first.has(wire.F_END_STREAM) != bool(end_stream):
                r.violate('C02:END_STREAM-flag:%s' % what, repr(first))
            if first.has(wire.F_PADDED):
                r.violate('C02:unexpected-padding:%s' % what, repr(first))
            if prio is None:
                if first.has(wire.F_PRIORITY):
                    r.violate('C02:unexpected-priority:%s' % what, repr(first))
            else:
                w, d, e = prio
                want = {'weight': 16 if w is None else w, 'depends_on': 0 if d is None else d,
                        'exclusive': False if e is None else bool(e)}
                got = {k: first.f.get(k) for k in want}
                if not first.has(wire.F_PRIORITY) or got != want:
                    r.violate('C02:priority-fields:%s' % what, 'want %r got %r' % (want, got))
                nontrivial = True
        else:
            if first.f.get('promised') != promised:
                r.violate('C02:promised-id:%s' % what, repr(first))
        got = first.f.get('headers')
        want = H.normalize_outbound([(n, v, False) for n, v in hdrs])
        if got is None or [(n, v) for n, v, _ in got] != [(n, v) for n, v, _ in want]:
            r.violate('C02:block-decodes-differently:%s' % what, 'want %r got %r' % (want[:4], (got or [])[:4]))
        shadow.encode([(n, v) for n, v in hdrs], huffman=False)   # keep the shadow's table in step (cheaply)
        if len(fs) >= 2:
            nontrivial = True
        blen = first.f.get('full_block_len', 0)
        if blen and min(blen % mfs, mfs - blen % mfs) <= 6:
            nontrivial = True
            r.labels.add('block-at-frame-boundary')

    for stepno in range(ch.int(4, 25)):
        if r.violations or closed:
            break
        op = ch.weighted([(6, 'headers'), (5, 'data'), (2, 'end'), (2, 'push'), (2, 'prioritize'), (2, 'ping'),
                          (2, 'rst'), (2, 'wu'), (2, 'settings'), (2, 'altsvc'), (1, 'goaway'), (2, 'trailers'),
                          (2, 'peer-mfs'), (2, 'answer-push'), (1, 'read-part-then-clear'), (2, 'peer-ack'),
                          (2, 'recv-data-and-ack')])
        if op == 'read-part-then-clear':
            # the application reads some of the queued frames (whole frames), drops the rest, and carries on:
            # what it reads afterwards is still a sequence of whole frames
            c = s.c
            p1, p2 = ch.bytes(8), ch.bytes(8)
            try:
                c.ping(p1)
                c.ping(p2)
                first = c.data_to_send(17)          # exactly the first PING frame
                c.clear_outbound_data_buffer()
            except Exception as e:   # noqa: BLE001
                r.violate('C02:valid-call-refused:%s' % type(e).__name__, 'ping / partial read / clear')
                break
            s.ep.sent += first
            o = type('O', (), {})()
            o.out, o.frames = first, []
            s._parse(o)
            r.step('two pings, read 17 bytes, clear_outbound_data_buffer', [(f.name, f.length) for f in o.frames])
            if len(o.frames) != 1 or o.frames[0].type != wire.PING or o.frames[0].f.get('data') != p1:
                r.violate('C02:partial-read-not-the-first-frame', repr(o.frames))
                break
            r.labels.add('partial-read-and-clear')
        elif op == 'recv-data-and-ack':
            # the peer sends DATA and the application acknowledges part of it: whatever that (or a later
            # acknowledgement of our SETTINGS) makes us emit is a sequence of valid frames - a WINDOW_UPDATE
            # carries a positive increment
            cands = [x for x in can_send if x % 2 == 1]
            if not cands:
                continue
            sid = ch.pick(cands)
            pre = b''
            if client and sid not in answered:
                pre = wire.headers(sid, s.hblock(RESP))
                answered.add(sid)
            n = ch.pick([1, 100, 3000, 10000])
            o = s.feed(pre + wire.data(sid, b'r' * n))
            if not o.ok:
                r.violate('C02:harness:data-rejected', o.brief())
                break
            k = ch.pick([0, 1, n // 2, n])
            o = s.call('acknowledge_received_data', k, sid)
            r.step('recv DATA', sid, n, 'acknowledge_received_data', k, o.brief(), [(f.name, f.f.get('inc')) for f in o.frames])
            if not o.ok:
                r.violate('C02:valid-acknowledge-refused:%s' % o.exc_name, '%d of %d' % (k, n))
                break
            for f in o.frames:
                if f.problems or f.type != wire.WINDOW_UPDATE or not f.f.get('inc'):
                    r.violate('C02:malformed-frame:acknowledge:%s' % (f.problems[0] if f.problems else f.name), repr(f))
            r.labels.add('received-data-partly-acknowledged')
        elif op == 'peer-ack':
            # the peer acknowledges our oldest outstanding SETTINGS frame: our own limits (MAX_FRAME_SIZE among
            # them) bind the peer, not us - whatever we send afterwards still respects the peer's values
            if not unacked:
                continue
            acked = unacked.pop(0)
            o = s.feed(wire.settings(ack=True))
            r.step('recv SETTINGS ACK for', acked, o.brief())
            if not o.ok:
                r.violate('C02:harness:settings-ack-rejected', o.brief())
                break
            for f in o.frames:
                if f.problems or f.type != wire.WINDOW_UPDATE or not f.f.get('inc'):
                    r.violate('C02:unexpected-frame-after-ack', repr(f))
            sizes = [u[wire.S_HEADER_TABLE_SIZE] for u in [acked] + unacked if wire.S_HEADER_TABLE_SIZE in u]
            if sizes:
                # the simulated peer's encoder follows and announces it in its next block; it already shrinks
                # to the smallest size we have sent (always allowed), because the library applies a pending
                # HEADER_TABLE_SIZE at the first acknowledgement it sees (known finding K02)
                s.m.set_encoder_table_size(min(sizes))
            if acked.get(wire.S_MAX_FRAME_SIZE, 16384) > mfs and (can_send or promised):
                r.labels.add('local-max-frame-size-above-peers-acked-with-streams')
        elif op == 'peer-mfs':
            # the peer announces a new MAX_FRAME_SIZE: every later frame on every stream, including
            # streams that exist already (open or reserved), must respect it
            new = ch.pick([16384, 16385, 32768, 40000, 2**24 - 1, 16384])
            o = s.feed(wire.settings([(wire.S_MAX_FRAME_SIZE, new)]))
            r.step('recv SETTINGS MAX_FRAME_SIZE', new, o.brief())
            if not o.ok:
                r.violate('C02:harness:settings-rejected', o.brief())
                break
            s.note_peer_settings([(wire.S_MAX_FRAME_SIZE, new)])
            if new < mfs and (can_send or promised):
                r.labels.add('max-frame-size-lowered-with-streams')
            mfs = new
            expect_frames(o, [{'t': wire.SETTINGS, 'sid': 0, 'fl': wire.F_ACK}], 'settings-ack')
        elif op == 'answer-push':
            if not promised:
                continue
            sid = promised.pop(ch.int(0, len(promised) - 1))
            base = [(b':status', b'200'), (b'x-n', b'%d' % stepno)]
            if ch.chance(160) and mfs <= 40000:
                hdrs = sized_headers(ch, shadow, base, mfs + ch.int(-6, 6))
            else:
                hdrs = base + [(b'x-small', b'v' * ch.int(0, 40))]
            end = ch.chance(48)
            o = s.call('send_headers', sid, hdrs, end_stream=end)
            r.step('send_headers (pushed response)', sid, 'filler', len(hdrs[-1][1]), 'end', end, o.brief(),
                   [(f.name, f.length) for f in o.frames])
            if not o.ok:
                r.violate('C02:valid-send_headers-refused:pushed:%s' % o.exc_name, repr(o.exc)[:200])
                if o.out:
                    r.violate('C02:refused-call-emitted:send_headers:%s' % o.exc_name,
                              repr([(f.name, f.length) for f in o.frames]))
                break
            header_call('send_headers', o, sid, hdrs, end, None)
            r.labels.add('pushed-response')
            if not end:
                can_send.append(sid)
        elif op == 'headers':
            if client:
                sid = next_local
                next_local += 2
                base = list(REQ)
            else:
                sid = next_peer
                next_peer += 2
                s.feed(wire.headers(sid, s.hblock(REQ)))
                base = [(b':status', b'200')]
                if ch.chance(48):
                    # stream-bound ALTSVC is only legal before the response headers
                    field = b'h2=":%d"' % ch.int(1, 9999)
                    edge = None
                    if ch.chance(80) and mfs <= 40000:
                        edge = ch.int(-2, 2)
                        field = b'f' * (mfs - 2 + edge)      # the frame carries a 2-byte origin length as well
                    o = s.call('advertise_alternative_service', field, stream_id=sid)
                    r.step('advertise_alternative_service', sid, 'field bytes', len(field), o.brief())
                    if not o.ok and edge is not None and edge > 0:
                        if o.out:
                            r.violate('C02:refused-call-emitted:altsvc:%s' % o.exc_name,
                                      repr([(f.name, f.length) for f in o.frames]))
                            break
                        r.labels.add('altsvc-frame-edge-refused')
                        o = s.call('advertise_alternative_service', b'h2=":1"', stream_id=sid)
                        field = b'h2=":1"'
                    if not o.ok:
                        r.violate('C02:valid-altsvc-refused:%s' % o.exc_name, '')
                        break
                    expect_frames(o, [{'t': wire.ALTSVC, 'sid': sid, 'fl': 0,
                                       'f': {'origin': b'', 'field': field}}], 'altsvc-stream')
            base += [(b'x-n', b'%d' % stepno)]
            size_mode = ch.weighted([(5, 'small'), (2, 'boundary')])
            prio = None
            if client and ch.chance(128):
                prio = (ch.pick([None, 1, 16, 256, ch.int(1, 256)]), ch.pick([None, 0, sid - 2 if sid > 2 else 0, sid + 2]),
                        ch.pick([None, True, False]))
                if prio == (None, None, None):
                    prio = (16, None, None)
            if size_mode == 'boundary' and mfs <= 40000:
                k = ch.pick([1, 1, 1, 2]) if mfs < 20000 else 1
                target = k * mfs + ch.int(-6, 6)
                hdrs = sized_headers(ch, shadow, base, target)
            else:
                hdrs = base + [(b'x-small', b'v' * ch.int(0, 40))]
            end = ch.chance(64)
            kw = {}
            if prio is not None:
                for name, v in zip(('priority_weight', 'priority_depends_on', 'priority_exclusive'), prio):
                    if v is not None:
                        kw[name] = v
            o = s.call('send_headers', sid, hdrs, end_stream=end, **kw)
            r.step('send_headers', sid, 'fields', len(hdrs), 'filler', len(hdrs[-1][1]), 'end', end, kw, o.brief(),
                   [(f.name, f.length) for f in o.frames])
            if not o.ok:
                r.violate('C02:valid-send_headers-refused:%s' % o.exc_name, repr(o.exc)[:200])
                if o.out:
                    r.violate('C02:refused-call-emitted:send_headers:%s' % o.exc_name,
                              repr([(f.name, f.length) for f in o.frames]))
                break
            header_call('send_headers', o, sid, hdrs, end, prio)
            if not end:
                can_send.append(sid)
        elif op == 'trailers':
            if not can_send:
                continue
            sid = can_send.pop(ch.int(0, len(can_send) - 1))
            hdrs = [(b'x-trailer', b't' * ch.int(0, 30))]
            if ch.chance(80) and mfs <= 40000:
                hdrs = sized_headers(ch, shadow, hdrs, mfs + ch.int(-6, 6))
            o = s.call('send_headers', sid, hdrs, end_stream=True)
            r.step('trailers', sid, 'filler', len(hdrs[-1][1]), o.brief(), [(f.name, f.length) for f in o.frames])
            if not o.ok:
                r.violate('C02:valid-trailers-refused:%s' % o.exc_name, '')
                if o.out:
                    r.violate('C02:refused-call-emitted:send_headers:%s' % o.exc_name,
                              repr([(f.name, f.length) for f in o.frames]))
                break
            header_call('trailers', o, sid, hdrs, True, None)
        elif op == 'data':
            if not can_send:
                continue
            sid = ch.pick(can_send)
            pad = ch.pick([None, None, 0, 1, 255, ch.int(0, 255)])
            over = 0 if pad is None else pad + 1
            n = ch.weighted([(5, ch.int(0, 100)), (2, mfs - over), (1, mfs - over - 1), (1, 0), (2, -1)])
            if mfs > 100000 and n > 100000 and not ch.chance(16):
                n = ch.int(0, 70000)
            q = s.call('local_flow_control_window', sid)
            room = (q.value if q.ok else 0) - over
            if n == -1:
                # payload that fits the frame on its own but not together with its padding: must be refused
                if over == 0 or mfs > 100000 or room < mfs:
                    continue
                n = mfs - ch.int(0, over - 1)
                o = s.call('send_data', sid, b'e' * n, end_stream=ch.bool(), pad_length=pad)
                r.step('send_data (frame edge)', sid, n, 'pad', pad, o.brief())
                if o.ok:
                    r.violate('C02:frame-exceeds-peer-max-frame-size:send_data',
                              'payload %d + padding %d > %d accepted' % (n, over, mfs))
                    break
                if o.out:
                    r.violate('C02:refused-call-emitted:send_data:%s' % o.exc_name,
                              repr([(f.name, f.length) for f in o.frames]))
                    break
                r.labels.add('data-frame-edge-refused')
                continue
            n = max(0, min(n, room))
            if room < 0:
                continue
            end = ch.chance(48)
            payload = bytes([ch.u8()]) * n
            o = s.call('send_data', sid, payload, end_stream=end, pad_length=pad)
            r.step('send_data', sid, n, 'pad', pad, 'end', end, o.brief())
            if not o.ok:
                r.violate('C02:valid-send_data-refused:%s' % o.exc_name, 'n=%d pad=%r' % (n, pad))
                break
            fl = (wire.F_END_STREAM if end else 0) | (wire.F_PADDED if pad is not None else 0)
            if expect_frames(o, [{'t': wire.DATA, 'sid': sid, 'fl': fl, 'f': {'data': payload, 'pad': pad,
                                                                            'fc_len': n + over}}], 'send_data'):
                if o.frames[0].f.get('nonzero_padding'):
                    r.violate('C02:nonzero-padding', '')
            if pad is not None:
                nontrivial = True
            if end:
                can_send.remove(sid)
        elif op == 'end':
            if not can_send:
                continue
            sid = can_send.pop(ch.int(0, len(can_send) - 1))
            o = s.call('end_stream', sid)
            r.step('end_stream', sid, o.brief())
            if not o.ok:
                r.violate('C02:valid-end_stream-refused:%s' % o.exc_name, '')
                break
            expect_frames(o, [{'t': wire.DATA, 'sid': sid, 'fl': wire.F_END_STREAM, 'f': {'data': b''}}], 'end_stream')
        elif op == 'push':
            parents = [x for x in can_send if x % 2 == 1]
            if client or not parents:
                continue
            parent = ch.pick(parents)
            pid = next_local
            next_local += 2
            base = list(REQ) + [(b'x-p', b'%d' % stepno)]
            if ch.chance(96) and mfs <= 40000:
                hdrs = sized_headers(ch, shadow, base, mfs + ch.int(-8, 8))
            else:
                hdrs = base
            o = s.call('push_stream', parent, pid, hdrs)
            r.step('push_stream', parent, pid, len(hdrs[-1][1]), o.brief(), [(f.name, f.length) for f in o.frames])
            if not o.ok:
                r.violate('C02:valid-push-refused:%s' % o.exc_name, repr(o.exc)[:200])
                if o.out:
                    r.violate('C02:refused-call-emitted:push_stream:%s' % o.exc_name, '')
                break
            header_call('push_stream', o, parent, hdrs, False, None, promised=pid)
            promised.append(pid)
        elif op == 'prioritize':
            if not client:
                continue
            sid = ch.pick([1, 3, 5, 99, next_local, 2**31 - 1])
            w = ch.pick([None, 1, 16, 256, ch.int(1, 256)])
            d = ch.pick([None, 0, 1, 7, 2**31 - 1])
            if d == sid:
                d = 0
            e = ch.pick([None, True, False])
            kw = {k: v for k, v in (('weight', w), ('depends_on', d), ('exclusive', e)) if v is not None}
            o = s.call('prioritize', sid, **kw)
            r.step('prioritize', sid, kw, o.brief())
            if not o.ok:
                r.violate('C02:valid-prioritize-refused:%s' % o.exc_name, repr(kw))
                break
            expect_frames(o, [{'t': wire.PRIORITY, 'sid': sid, 'fl': 0, 'f': {
                'weight': 16 if w is None else w, 'depends_on': d or 0, 'exclusive': bool(e)}}], 'prioritize')
            nontrivial = True
        elif op == 'ping':
            p = ch.bytes(8)
            o = s.call('ping', p)
            r.step('ping', p, o.brief())
            if o.ok:
                expect_frames(o, [{'t': wire.PING, 'sid': 0, 'fl': 0, 'f': {'data': p}}], 'ping')
            else:
                r.violate('C02:valid-ping-refused', '')
        elif op == 'rst':
            if not can_send:
                continue
            sid = can_send.pop(ch.int(0, len(can_send) - 1))
            code = ch.pick([0, 1, 8, 13, 0xff, 2**32 - 1, ch.u32()])
            o = s.call('reset_stream', sid, code)
            r.step('reset_stream', sid, code, o.brief())
            if not o.ok:
                r.violate('C02:valid-reset-refused:%s' % o.exc_name, '')
                break
            expect_frames(o, [{'t': wire.RST_STREAM, 'sid': sid, 'fl': 0, 'f': {'code': code}}], 'reset_stream')
        elif op == 'wu':
            sid = ch.pick([None] + can_send)
            inc = ch.pick([1, 1000, 2**20, ch.int(1, 2**24)])
            o = s.call('increment_flow_control_window', inc, sid)
            r.step('increment_flow_control_window', inc, sid, o.brief())
            if not o.ok:
                r.labels.add('wu-refused')
                if o.out:
                    r.violate('C02:refused-call-emitted:increment', '')
                continue
            expect_frames(o, [{'t': wire.WINDOW_UPDATE, 'sid': sid or 0, 'fl': 0, 'f': {'inc': inc}}], 'increment')
        elif op == 'settings':
            new = {}
            for _ in range(ch.int(1, 3)):
                k = ch.pick([1, 3, 4, 5, 6, 8, 2, 0x7f])
                new[k] = {1: ch.pick([0, 4096, 100]), 3: ch.int(30, 200), 4: ch.pick([65535, 100000]),
                          5: ch.pick([16384, 2**24 - 1, 20000]), 6: ch.pick([1000, 2**16]), 8: ch.int(0, 1), 2: ch.int(0, 1),
                          0x7f: ch.u32()}[k]
            o = s.call('update_settings', dict(new))
            r.step('update_settings', new, o.brief())
            if not o.ok:
                r.violate('C02:valid-update_settings-refused', repr(new))
                break
            if expect_frames(o, [{'t': wire.SETTINGS, 'sid': 0, 'fl': 0}], 'update_settings'):
                if dict(o.frames[0].f['settings']) != new or len(o.frames[0].f['settings']) != len(new):
                    r.violate('C02:wrong-field:update_settings:settings', repr(o.frames[0]))
            unacked.append(dict(new))
        elif op == 'altsvc':
            if client:
                continue
            field = b'h2=":%d"' % ch.int(1, 9999)
            origin = ch.pick([b'example.com', b'https://a.example:8443'])
            edge = None
            if ch.chance(64) and mfs <= 40000:
                # a field that makes the frame (2 + origin + field bytes) just fit, or just not fit
                edge = ch.int(-2, 2)
                field = b'f' * (mfs - 2 - len(origin) + edge)
            o = s.call('advertise_alternative_service', field, origin=origin)
            want = {'t': wire.ALTSVC, 'sid': 0, 'fl': 0, 'f': {'origin': origin, 'field': field}}
            r.step('advertise_alternative_service', 0, 'field bytes', len(field), o.brief())
            if o.ok:
                expect_frames(o, [want], 'altsvc')
            elif edge is not None and edge > 0:
                if o.out:
                    r.violate('C02:refused-call-emitted:altsvc:%s' % o.exc_name,
                              repr([(f.name, f.length) for f in o.frames]))
                r.labels.add('altsvc-frame-edge-refused')
            else:
                r.violate('C02:valid-altsvc-refused:%s' % o.exc_name, '')
        elif op == 'goaway':
            code = ch.pick([0, 1, 11, ch.u32()])
            extra = ch.pick([None, b'', b'debug', ch.bytes(ch.int(1, 20))])
            edge = None
            if ch.chance(90) and mfs <= 40000:
                # debug data that makes the GOAWAY frame (8 bytes + data) just fit the peer's limit, or just not
                edge = ch.int(-2, 2)
                extra = b'd' * (mfs - 8 + edge)
            last = ch.pick([None, 0, 1, 2**31 - 1, ch.int(0, 99)])
            o = s.call('close_connection', code, extra, last)
            r.step('close_connection', code, len(extra) if extra else extra, last, o.brief())
            if not o.ok and edge is not None and edge > 0:
                if o.out:
                    r.violate('C02:refused-call-emitted:close_connection:%s' % o.exc_name,
                              repr([(f.name, f.length) for f in o.frames]))
                r.labels.add('goaway-frame-edge-refused')
                continue
            if not o.ok:
                r.violate('C02:valid-close_connection-refused', '')
                break
            peer_high = next_peer - 2 if (not client and next_peer > 1) else 0
            expect_frames(o, [{'t': wire.GOAWAY, 'sid': 0, 'fl': 0, 'f': {
                'code': code, 'debug': extra or b'', 'last': peer_high if last is None else last}}], 'close_connection')
            closed = True
    if s.out_problems:
        r.violate('C02:output-monitor:%s' % s.out_problems[0].split(':')[0], repr(s.out_problems))
    if s.rest:
        r.violate('C02:trailing-partial-frame', s.rest.hex()[:40])
    r.nontrivial = nontrivial
    return r


def _f15():
    """Header block that exactly fills a frame, with priority arguments / as a push."""
    keys = []
    for kind in ('priority', 'push'):
        s = Solo(kind == 'priority')
        s.start()
        shadow = Encoder()
        if kind == 'priority':
            hdrs = sized_headers(None, shadow, list(REQ), 16384)
            o = s.call('send_headers', 1, hdrs, priority_weight=10)
        else:
            s.feed(wire.headers(1, s.hblock(REQ)))
            hdrs = sized_headers(None, shadow, list(REQ), 16384)
            o = s.call('push_stream', 1, 2, hdrs)
        if not o.ok or any(f.length > 16384 for f in o.frames):
            keys.append('C02:frame-exceeds-peer-max-frame-size:%s' % kind)
    return keys


FINDINGS = {'F15-first-header-frame-overhead-not-reserved': _f15}
