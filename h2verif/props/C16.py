"""C16 Content-Length is enforced as RFC 7540 s8.1.2.6 requires."""
import itertools

from .. import wire
from ..choose import Chooser
from ..runner import Result
from ..solo import Solo

ID = 'C16'
LEVEL = 'exploration'
ENGINE = 'E2 solo'
TECHNIQUE = ('property-based testing: exhaustive message grid + generated sizes/chunkings vs. the RFC 7540 '
             's8.1.2.6 acceptance predicate')
GRID_EXHAUSTIVE = True
GRID_NOTE = ('grid over method x request trailers x 1xx x status x content-length relation x DATA pattern x '
             'END_STREAM placement x padding is enumerated completely; sizes and longer chunkings are sampled')
RULE = ('(generated cases also write the request list with upper-case / padded / text / one-shot-iterator spellings and let the server promise a GET or HEAD request on the stream before it answers) grid: responses at a client (method GET/HEAD/POST x request trailers x preceding 1xx none/without/with '
        'content-length x status 200/204/304/404 x content-length absent/0/=total/total-1/total+1/100 x DATA '
        'pattern ()/(0)/(5)/(5,0)/(2,3)/(0,5) x END_STREAM on HEADERS/DATA/trailers x padding) and requests at a '
        'server (GET/POST x the same body dimensions); every grid point is non-trivial; generated: random sizes '
        '0..3000 in 0..4 frames with random padding, non-trivial when content-length is present or the response '
        'is a no-content one; distinct by concrete trace')
ASSUMPTIONS = ['"rejected" = connection error PROTOCOL_ERROR or RST_STREAM on that stream at any step of the message']
TIERS = {'quick': {'cases': 3000, 'size': 48},
         'thorough': {'cases': 1200000, 'size': 48}}

PATTERNS = [(), (0,), (5,), (5, 0), (2, 3), (0, 5)]
CLS = ['absent', '0', 'eq', 'minus1', 'plus1', '100']


def body_shapes():
    out = [((), 'headers', False)]
    for p in PATTERNS:
        if p:
            for pad in (False, True):
                out.append((p, 'data', pad))
                out.append((p, 'trailers', pad))
        else:
            out.append((p, 'trailers', False))
    return out


def grid_items(tier):
    shapes = body_shapes()
    for method, reqtr, info, status, cl, shape in itertools.product(
            ['GET', 'HEAD', 'POST'], [False, True], ['none', 'plain', 'with-cl'],
            ['200', '204', '304', '404'], CLS, shapes):
        yield ('response', method, reqtr, info, status, cl, shape[0], shape[1], shape[2])
    for method, cl, shape in itertools.product(['GET', 'POST', 'HEAD'], CLS, shapes):
        yield ('request', method, False, 'none', '', cl, shape[0], shape[1], shape[2])


def cl_value(cl, total):
    return {'absent': None, '0': 0, 'eq': total, 'minus1': total - 1, 'plus1': total + 1, '100': 100}[cl]


def spell(req, spelling):
    """The request list as an application may write it (the library lower-cases names and strips whitespace)."""
    if spelling == 'upper-name':
        return [(n.title() if n == b':method' else n, v) for n, v in req]
    if spelling == 'spaces':
        return [(b' ' + n, v + b' ') if n == b':method' else (n, b' ' + v) for n, v in req]
    if spelling == 'text':
        return [(n.decode('ascii'), v.decode('ascii')) for n, v in req]
    if spelling == 'iterator':
        return iter(list(req))
    return req


def run_message(r, direction, method, reqtr, info, status, clv, pattern, end, pads, cfg=None, trailer_cl=None,
                spelling=None, push=None, stray=None):
    """pads: list of pad lengths (or None) per DATA frame.  spelling: how the client's request list is written.
    push: method of a request the server promises on the stream before it answers (None: no promise)."""
    total = sum(pattern)
    client = direction == 'response'
    s = Solo(client, **(cfg or {}))
    s.start()
    rejected = False
    steps = []

    def feed(data, what):
        nonlocal rejected
        o = s.feed(data)
        steps.append((what, o.brief()))
        if not o.ok:
            if not o.is_protocol_error():
                r.violate('C16:non-protocol-exception:%s' % o.exc_name, what)
            elif o.code != wire.PROTOCOL_ERROR:
                r.violate('C16:rejected-with-code:%s' % o.code, what)
            rejected = True
            return None
        if any(f.type == wire.RST_STREAM and f.stream_id == 1 for f in o.frames):
            rejected = True
            return None
        return o

    req = [(b':method', method.encode()), (b':scheme', b'https'), (b':authority', b'example.com'),
           (b':path', b'/')]
    msg_headers = []
    if clv is not None:
        msg_headers.append((b'content-length', str(clv).encode()))
    ended = False
    if client:
        sent = spell(req, spelling)
        o = s.call('send_headers', 1, sent, end_stream=not reqtr)
        if not o.ok:
            r.violate('C16:harness:request-refused:%s' % spelling, o.brief())
            return
        other = b'GET' if method == 'HEAD' else b'HEAD'
        if stray == 'recycled-list' and isinstance(sent, list):
            # the application reuses its list object for the next request (what was sent is what counts)
            sent[0] = (b':method', other)
        elif stray == 'refused-block' and reqtr:
            # a second request-shaped block on the same stream, with another method, is refused (it stands where
            # trailers would, and has no END_STREAM): the method of the request that was sent still decides
            o = s.call('send_headers', 1, [(b':method', other)] + req[1:])
            if o.ok:
                r.violate('C16:harness:stray-request-block-accepted', '')
                return
        if reqtr:
            s.call('send_headers', 1, [(b'x-t', b'1')], end_stream=True)
        if push:
            # a promised request is a message of its own: its method says nothing about the answer on this stream
            preq = [(b':method', push.encode()), (b':scheme', b'https'), (b':authority', b'example.com'),
                    (b':path', b'/pushed')]
            if feed(wire.push_promise(1, 2, s.hblock(preq)), 'push-promise') is None:
                r.violate('C16:push-promise-rejected', push)
                return
        if info != 'none':
            ih = [(b':status', b'103')] + ([(b'content-length', b'5')] if info == 'with-cl' else [])
            if feed(wire.headers(1, s.hblock(ih)), 'informational') is None:
                r.violate('C16:informational-response-rejected', info)
                return
        first = [(b':status', status.encode())] + msg_headers
    else:
        first = req + msg_headers
    o = feed(wire.headers(1, s.hblock(first), end_stream=(end == 'headers')), 'headers')
    if o is not None:
        ended = end == 'headers'
        for i, n in enumerate(pattern):
            last = i == len(pattern) - 1
            o = feed(wire.data(1, b'd' * n, end_stream=(last and end == 'data'), pad=pads[i]), 'data%d' % n)
            if o is None:
                break
            if last and end == 'data':
                ended = True
        if o is not None and end == 'trailers':
            # (a content-length field among the trailers is just another trailer field: the length that counts
            # is the one the message declared in its header block)
            tr = [(b'x-trailer', b'1')] + ([(b'content-length', b'%d' % trailer_cl)] if trailer_cl is not None else [])
            o = feed(wire.headers(1, s.hblock(tr), end_stream=True), 'trailers')
            ended = o is not None
    r.step(direction, method, 'req-trailers' if reqtr else '', info, status, 'cl', clv, pattern, end, pads, steps)
    no_content = client and (method == 'HEAD' or status in ('204', '304'))
    if no_content:
        want_reject = total > 0
    else:
        want_reject = clv is not None and clv != total
    kind = 'no-content' if no_content else 'normal'
    if want_reject and not rejected:
        r.violate('C16:accepted:%s:%s:end=%s' % (
            kind, 'payload' if no_content else ('short' if clv > total else 'long'), end),
            '%s %s %s cl=%r pattern=%r' % (direction, method, status, clv, pattern))
    elif not want_reject and rejected:
        r.violate('C16:rejected:%s:cl=%s:end=%s' % (
            kind, 'absent' if clv is None else ('match' if clv == total else 'mismatch'), end),
            '%s %s %s cl=%r pattern=%r steps=%r' % (direction, method, status, clv, pattern, steps))
    elif not want_reject and not ended:
        r.violate('C16:harness:message-not-ended', repr(steps))


def run_grid_item(it):
    direction, method, reqtr, info, status, cl, pattern, end, pad = it
    r = Result()
    clv = cl_value(cl, sum(pattern))
    if clv is not None and clv < 0:
        clv = 7
    pads = [(3 if pad else None) for _ in pattern]
    run_message(r, direction, method, reqtr, info, status, clv, tuple(pattern), end, pads)
    r.nontrivial = True
    r.labels.add('grid:' + direction)
    return r


def run_case(data):
    ch = Chooser(data)
    r = Result()
    direction = ch.pick(['response', 'request'])
    method = ch.pick(['GET', 'HEAD', 'POST'] if direction == 'response' else ['GET', 'POST', 'PUT', 'HEAD'])
    reqtr = direction == 'response' and ch.chance(64)
    info = ch.weighted([(6, 'none'), (1, 'plain'), (1, 'with-cl')]) if direction == 'response' else 'none'
    status = ch.pick(['200', '204', '304', '404', '500', '205']) if direction == 'response' else ''
    nframes = ch.int(0, 4)
    pattern = tuple(ch.weighted([(2, 0), (3, ch.int(1, 20)), (2, ch.int(21, 3000))]) for _ in range(nframes))
    total = sum(pattern)
    cl = ch.weighted([(2, 'absent'), (4, 'eq'), (1, '0'), (2, 'minus1'), (2, 'plus1'), (1, '100')])
    clv = cl_value(cl, total)
    if clv is not None and clv < 0:
        clv = 1
    if not pattern:
        end = ch.pick(['headers', 'trailers'])
    else:
        end = ch.pick(['data', 'trailers'])
    pads = [ch.pick([None, None, 0, 1, 17, 255]) for _ in pattern]
    # the rule is about framing and lengths: it holds whatever the header-processing switches say
    cfg = {}
    bits = ch.u8()
    if bits & 1:
        cfg = {'header_encoding': ch.pick(['utf-8', 'latin-1']) if bits & 2 else None,
               'validate_inbound_headers': not bits & 4, 'normalize_inbound_headers': not bits & 8}
        r.labels.add('non-default-config')
    trailer_cl = None
    if end == 'trailers' and ch.chance(64):
        trailer_cl = ch.pick([total, total + 1, 0, clv if clv is not None else 3])
        r.labels.add('content-length-in-trailers')
    spelling = push = None
    if direction == 'response':
        spelling = ch.pick([None, None, None, 'upper-name', 'spaces', 'text', 'iterator'])
        push = ch.pick([None, None, None, 'GET', 'HEAD'])
        if spelling:
            r.labels.add('request-spelled:' + spelling)
        if push:
            r.labels.add('promise-before-answer')
    stray = None
    if direction == 'response' and ch.chance(64):
        stray = ch.pick(['recycled-list', 'refused-block'])
        if stray == 'recycled-list':
            # only visible to a library that keeps the caller's list: outbound normalisation off, plain list
            cfg = dict(cfg, normalize_outbound_headers=False)
            spelling = None
        r.labels.add('request-' + stray)
    run_message(r, direction, method, reqtr, info, status, clv, pattern, end, pads, cfg, trailer_cl, spelling, push,
                stray)
    r.nontrivial = clv is not None or method == 'HEAD' or status in ('204', '304')
    r.labels.add(direction)
    if any(p is not None for p in pads):
        r.labels.add('padded')
    return r


def _f10():
    keys = []
    for it in [('response', 'GET', False, 'none', '404', 'plus1', (), 'headers', False),
               ('response', 'GET', False, 'none', '200', '100', (2, 3), 'trailers', False),
               ('response', 'GET', False, 'with-cl', '200', 'absent', (0,), 'data', False),
               ('response', 'GET', False, 'none', '204', 'eq', (5,), 'data', False),
               ('response', 'GET', False, 'none', '204', '100', (0,), 'data', False),
               ('response', 'HEAD', True, 'none', '200', '100', (), 'headers', False),
               ('request', 'GET', False, 'none', '', 'plus1', (), 'headers', False)]:
        keys += [k for k, _ in run_grid_item(it).violations]
    return keys


FINDINGS = {'F10-content-length-paths': _f10}
