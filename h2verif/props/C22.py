"""C22 Server push rules are enforced on both ends."""
from .. import wire, model as M
from ..choose import Chooser
from ..runner import Result
from ..prog import World
from ..solo import Solo, REQ, RESP

ID = 'C22'
LEVEL = 'exploration'
ENGINE = 'E2 solo'
TECHNIQUE = ('property-based testing: generated push histories on both roles (parent states, promised ids, header '
             'lists, ENABLE_PUSH changes crossing pushes) vs. the RFC reference model')
RULE = ('cases: histories (6..40 steps): server role - push_stream on parents of every state and origin '
        '(client-initiated, pushed, unknown, closed, cleaned-up) with promised ids (valid, odd, low, reused), valid '
        'and invalid request lists, the client changing ENABLE_PUSH 0/1 at any time, responses / data / resets on '
        'promised streams; client role - crafted PUSH_PROMISE frames on parents of every state, recursive pushes, '
        'bad promised ids, invalid lists, local ENABLE_PUSH changes with the ACK injected later so pushes cross the '
        'change; non-trivial = >= 1 accepted and >= 1 refused push, or an ENABLE_PUSH change crossing a '
        'PUSH_PROMISE; distinct by trace')
ASSUMPTIONS = ['local SETTINGS frames in this check change only ENABLE_PUSH after the handshake ACK']
TIERS = {'quick': {'cases': 6000, 'size': 300},
         'thorough': {'cases': 1200000, 'size': 400}}

BAD_LISTS = [
    [(b':method', b'GET'), (b':scheme', b'https'), (b':authority', b'example.com')],            # no :path
    [(b':status', b'200')],                                                                    # a response
    REQ + [(b'connection', b'close'), (b'te', b'gzip')],
    REQ + [(b':path', b'/again')],
]


def pick_promised(ch, w):
    m = w.m
    nxt = w.next_local_id() if not w.client else w.next_peer_id()
    return ch.weighted([(8, nxt), (2, nxt + 2 * ch.int(1, 3)), (1, nxt + 1), (1, max(2, nxt - 2)), (1, 2)])


def pick_parent(ch, w, usable):
    k = ch.weighted([(8, 'known'), (1, 'idle'), (1, 'implicit')])
    if k == 'known' and usable:
        return ch.pick(usable)
    if k == 'idle':
        return (w.next_peer_id() if not w.client else w.next_local_id()) + 2 * ch.int(0, 2)
    base = w.m.hi_peer if not w.client else w.m.hi_local
    return max(1, base - 2) if base > 2 else 99


def run_case(data):
    ch = Chooser(data)
    r = Result()
    client = ch.bool()
    initial = None
    if client and ch.chance(80):
        # a client that allows the server only one or two concurrent streams: promised streams do not count
        # until their response starts, so promises keep being accepted (and reported) at the limit
        initial = {wire.S_MAX_CONCURRENT_STREAMS: ch.pick([1, 2])}
        r.labels.add('client-with-low-stream-limit')
    w = World(client, r, 'C22', local_initial=initial)
    m = w.m
    accepted = refused = crossing = 0
    pending_push_setting = []
    r.step('role', 'client' if client else 'server')
    for stepno in range(ch.int(6, 40)):
        if w.stop or r.violations:
            break
        usable = sorted(s for s in m.streams if s not in w.tainted)
        if not client:
            op = ch.weighted([(5, 'peer-open'), (10, 'push'), (3, 'push-bad-list'), (3, 'respond'), (2, 'data'),
                              (2, 'local-end'), (2, 'peer-end'), (3, 'peer-enable-push'), (1, 'cleanup'),
                              (2, 'early-on-promised')])
        else:
            op = ch.weighted([(5, 'open'), (10, 'recv-push'), (2, 'recv-push-bad-list'), (3, 'pushed-response'),
                              (2, 'local-end'), (2, 'peer-end'), (4, 'local-enable-push'), (3, 'local-ack'),
                              (1, 'send-on-pushed'), (1, 'cleanup'), (2, 'response')])
        if initial and op in ('local-enable-push', 'local-ack', 'recv-push-bad-list', 'send-on-pushed'):
            # (these cases are about promises at the stream limit: push stays enabled and pushed responses start;
            # a refused local call on a pushed stream would close it in the library - known finding K03 - and
            # with it change what counts towards the limit)
            op = ch.pick(['pushed-response', 'pushed-response', 'recv-push'])
        if op == 'peer-open':
            w.recv_headers(w.next_peer_id(), 'final', ch.chance(64))
        elif op == 'open':
            w.send_headers(w.next_local_id(), 'final', ch.chance(64))
        elif op in ('push', 'push-bad-list'):
            parent = pick_parent(ch, w, usable)
            promised = pick_promised(ch, w)
            if parent in w.tainted:
                continue
            if op == 'push':
                big = None
                if ch.chance(24):
                    # a request list that does not fit one frame: PUSH_PROMISE (4 bytes of promised id) + CONTINUATION
                    big = list(REQ) + [(b'x-big', b'B' * ch.pick([16376, 16390, 33000]))]
                    r.labels.add('multi-frame-push')
                res, o = w.push(parent, promised, hdrs=big)
                if res == 'ok' and big is not None:
                    pf = [f for f in o.frames if f.type == wire.PUSH_PROMISE]
                    got = pf[0].f.get('headers') if pf else None
                    if got is None or [(n, v) for n, v, _ in got] != big:
                        w.violate('push:promised-headers-not-those-given', repr((got or [])[:5])[:200])
            else:
                hdrs = ch.pick(BAD_LISTS)
                verdict, what = m.push_verdict(parent, promised)
                o = w.s.call('push_stream', parent, promised, hdrs)
                if verdict == M.PERMIT:
                    verdict, what = M.REFUSE, 'message:not-a-request'     # refused by validation, inert
                res = w.finish_local('push(bad-list)', parent, verdict, what, o, lambda: None)
            if res == 'ok':
                accepted += 1
                pf = [f for f in o.frames if f.type == wire.PUSH_PROMISE]
                if len(pf) != 1 or pf[0].stream_id != parent or pf[0].f.get('promised') != promised:
                    w.violate('push-frame-wrong', repr(o.frames))
            elif res == 'refused':
                refused += 1
        elif op == 'early-on-promised':
            # a promised stream carries only a response: before its header block nothing else goes out on it -
            # not after a refused attempt at that block either (a list without :status, refused by validation)
            cands = [s for s in usable if m.get(s).state == M.RES_LOCAL]
            if not cands:
                continue
            sid = ch.pick(cands)
            if ch.bool():
                o = w.s.call('send_headers', sid, [(b'x-not-a-response', b'1')])
                r.step('refused response attempt on promised stream', sid, o.brief())
                if o.ok:
                    w.violate('invalid-response-accepted', repr(o.frames)[:100])
                    break
                if o.out:
                    w.violate('refused-call-emitted', o.out.hex()[:40])
                r.labels.add('refused-response-on-promised-stream')
            if ch.bool():
                w.send_data(sid, ch.bool())
            else:
                w.end_stream(sid)
            r.labels.add('data-before-response-on-promised-stream')
        elif op == 'respond':
            cands = [s for s in usable if m.headers_position(m.get(s)) == 'response']
            if not cands:
                continue
            w.send_headers(ch.pick(cands), ch.pick(['final', 'final', 'info']), ch.chance(64))
        elif op == 'data':
            cands = [s for s in usable if m.get(s).can_send() and m.get(s).s_final and not m.get(s).s_trailers]
            if not cands:
                continue
            w.send_data(ch.pick(cands), ch.chance(64))
        elif op == 'local-end':
            cands = [s for s in usable if m.get(s).live()]
            if not cands:
                continue
            w.reset(ch.pick(cands))
        elif op == 'peer-end':
            cands = [s for s in usable if m.get(s).live()]
            if not cands:
                continue
            sid = ch.pick(cands)
            if m.get(sid).can_recv() and m.get(sid).r_final and not m.get(sid).r_trailers and ch.bool():
                w.recv_data(sid, True)
            else:
                w.recv_rst(sid)
        elif op == 'peer-enable-push':
            v = ch.int(0, 1)
            o = w.s.feed(wire.settings([(wire.S_ENABLE_PUSH, v)]))
            r.step('peer ENABLE_PUSH', v, o.brief())
            if not o.ok:
                w.violate('peer-enable-push-rejected', repr(o.exc))
                break
            if m.peer_enable_push != v:
                crossing += 1 if (accepted or refused) else 0
            m.peer_enable_push = v
        elif op == 'cleanup':
            w.s.c.open_inbound_streams
            w.s.c.open_outbound_streams
        elif op in ('recv-push', 'recv-push-bad-list'):
            parent = pick_parent(ch, w, usable)
            promised = pick_promised(ch, w)
            if parent in w.tainted or promised == parent:
                continue
            if pending_push_setting:
                crossing += 1
            if op == 'recv-push':
                hi_before = m.hi_peer
                res, o = w.recv_push(parent, promised)
                if res == 'ok' and m.get(promised) is not None and m.get(promised).state == M.RES_REMOTE and \
                        hi_before < promised:
                    accepted += 1
                    evs = [e for e in o.events if e[0] == 'PushedStreamReceived']
                    want_h = [(n, v, False) for n, v in REQ]
                    if len(evs) != 1 or evs[0][1] != parent or evs[0][2] != promised or evs[0][3] != want_h:
                        w.violate('PushedStreamReceived-wrong', repr(o.events))
                elif res == 'stop':
                    refused += 1
            else:
                res, o = w.recv_push(parent, promised, hdrs=ch.pick(BAD_LISTS), invalid_list=True)
                refused += 1
        elif op == 'pushed-response':
            cands = [s for s in usable if m.get(s).state == M.RES_REMOTE] or \
                [s for s in usable if m.get(s).pushed and m.get(s).can_recv()]
            if not cands:
                continue
            sid = ch.pick(cands)
            if m.get(sid).state == M.RES_REMOTE:
                w.recv_headers(sid, ch.pick(['final', 'final', 'trailers']), ch.chance(64))
            else:
                w.recv_data(sid, ch.chance(96))
        elif op == 'response':
            cands = [s for s in usable if m.get(s).local and m.get(s).can_recv() and not m.get(s).r_final]
            if not cands:
                continue
            w.recv_headers(ch.pick(cands), 'final', ch.chance(64))
        elif op == 'send-on-pushed':
            cands = [s for s in usable if m.get(s).pushed and m.get(s).live()]
            if not cands:
                continue
            sid = ch.pick(cands)
            how = ch.pick(['headers', 'data', 'push'])
            if how == 'headers':
                w.send_headers(sid, 'final', False)
            elif how == 'data':
                w.send_data(sid, False)
            else:
                w.push(sid, w.next_local_id())
        elif op == 'local-enable-push':
            if len(pending_push_setting) >= 3:
                continue
            # any value, including the current or the last announced one again: every frame needs its own ACK
            v = ch.int(0, 1)
            o = w.s.call('update_settings', {wire.S_ENABLE_PUSH: v})
            r.step('update_settings ENABLE_PUSH', v, o.brief())
            if not o.ok:
                w.violate('local-enable-push-refused', repr(o.exc))
                break
            pending_push_setting.append(v)
        elif op == 'local-ack':
            if not pending_push_setting:
                continue
            v = pending_push_setting.pop(0)
            o = w.s.feed(wire.settings(ack=True))
            r.step('ack ENABLE_PUSH', v, o.brief())
            if not o.ok:
                w.violate('settings-ack-rejected', repr(o.exc))
                break
            m.local_enable_push = v
    if w.s.out_problems:
        w.violate('malformed-output', repr(w.s.out_problems))
    r.nontrivial = (accepted >= 1 and refused >= 1) or crossing >= 1
    if crossing:
        r.labels.add('enable-push-change-crossing-a-push')
    if accepted:
        r.labels.add('accepted-push')
    if refused:
        r.labels.add('refused-push')
    return r


def _f21():
    s = Solo(True)
    s.start()
    s.call('send_headers', 1, REQ)
    s.feed(wire.headers(1, s.hblock(RESP), end_stream=True))
    o = s.feed(wire.push_promise(1, 2, s.hblock(REQ)))
    return [] if (not o.ok and o.is_protocol_error()) else ['C22:recv:push:client:half-closed-remote:got=refuse-promise()']


def _f19():
    s = Solo(False)
    s.start()
    s.feed(wire.altsvc(0, b'example.com', b'h2=":1"'))
    s.feed(wire.headers(1, s.hblock(REQ)))
    o = s.call('push_stream', 1, 2, REQ)
    return [] if o.ok else ['C22:send:push:server:open:permitted-by-rfc-but-refused:%s' % o.exc_name]


FINDINGS = {'F21-push-promise-on-half-closed-remote-parent': _f21, 'F19-server-altsvc-moves-connection-fsm': _f19}
