"""C17 Arbitrary peer bytes never produce a non-protocol exception."""
import traceback

from .. import wire, bytesgen
from ..choose import Chooser
from ..runner import Result
from ..drive import h2

ID = 'C17'
LEVEL = 'exploration'
ENGINE = 'E3 bytes'
ATHERIS = True
TECHNIQUE = ('fuzzing: structurally and bytewise mutated peer traffic (Hypothesis-seeded; coverage-guided with '
             'atheris in the thorough tier) with an exception-class oracle inside the target')
RULE = ('cases: a peer-model conversation for a client or server (after a prefix of local calls that puts streams '
        'into several states) mutated structurally (fields, lengths, types, flags, stream ids, duplication, '
        'reordering, adversarial HPACK blocks: bad indices, truncated integers/strings, Huffman garbage, empty '
        'names, non-UTF-8, table-size updates, uninterpretable values in the fields the library interprets such as '
        'content-length and :status), CONTINUATION floods of 63..3000 empty or tiny fragments, floods of 1100..2500 small frames of one kind (ALTSVC, unknown, PRIORITY, PING, SETTINGS, WINDOW_UPDATE), and/or bytewise, or raw bytes, fed in drawn chunks under a drawn '
        'combination of the four validation/normalisation switches and header_encoding; non-trivial = the input '
        'holds >= 2 complete frames and at least one stream-level event or an error was produced; distinct by '
        'concrete trace; violations are bucketed by (exception type, innermost h2 function)')
ASSUMPTIONS = ['after a receive_data that raised a ProtocolError the remaining chunks (and a few more frames) are still delivered: the oracle applies to every call']
TIERS = {'quick': {'cases': 12000, 'size': 300, 'atheris_runs': 96000},
         'thorough': {'cases': 400000, 'size': 400, 'atheris_runs': 1500000}}


def innermost_h2(tb):
    name = '?'
    for fs in traceback.extract_tb(tb):
        if '/h2/' in fs.filename:
            name = '%s:%s' % (fs.filename.rsplit('/', 1)[-1], fs.name)
    return name


def run_case(data):
    ch = Chooser(data)
    r = Result()
    cfgbits = ch.u8()
    sc = bytesgen.build(ch, big_frames=True)
    sc.cfg = {
        'validate_inbound_headers': not cfgbits & 1 or bool(cfgbits & 16),
        'normalize_inbound_headers': not cfgbits & 2 or bool(cfgbits & 32),
        'validate_outbound_headers': not cfgbits & 4,
        'normalize_outbound_headers': not cfgbits & 8,
        'header_encoding': 'utf-8' if cfgbits & 64 else None,
    }
    mode = ch.weighted([(6, 'frames'), (2, 'frames+bytes'), (2, 'bytes'), (1, 'raw'), (1, 'valid'), (1, 'cont-flood'),
                        (3, 'blocks'), (1, 'frame-flood')])
    frames = sc.frames
    start = 0 if sc.client else 1
    if mode in ('frames', 'frames+bytes'):
        frames, _ = bytesgen.mutate_frames(ch, frames, start if ch.chance(230) else 0)
    if mode == 'blocks':
        # an adversarial header block in the place of a genuine one (HEADERS or PUSH_PROMISE), everything else valid
        frames, hits = bytesgen.place_adversarial_blocks(ch, frames)
        if hits:
            r.labels.add('adversarial-block-in-position')
    if mode == 'frame-flood':
        # more small frames in one receive_data call than the interpreter allows nested calls
        flood, fk = bytesgen.frame_flood(ch)
        frames = list(frames) + flood + list(frames[-1:])
        r.labels.add('flood-of-' + fk)
    if mode == 'cont-flood':
        frames = list(frames) + bytesgen.continuation_flood(ch, ch.pick([1, 3, 5, 7, 9, 2]))
    stream = b''.join(frames)
    if mode in ('bytes', 'frames+bytes'):
        stream = bytesgen.mutate_bytes(ch, stream, 0 if ch.chance(32) else (0 if sc.client else 24))
    if mode == 'raw':
        stream = (b'' if sc.client else wire.PREFACE) + ch.bytes(ch.int(0, 120))
    cuts = bytesgen.chunkings(ch, len(stream), 1)[0] if ch.bool() else []
    try:
        ep = sc.endpoint()
    except RuntimeError as e:
        r.violate('C17:harness:prefix-failed', repr(e))
        return r
    c = ep.c
    got_stream_event = False
    ack_data = ch.bool()
    err = None
    chunks = bytesgen.split(stream, cuts)
    if ch.bool():
        # a peer that ignores our GOAWAY: a few more frames after whatever happened (each in its own call)
        from hpack import Encoder
        blk = Encoder().encode(bytesgen.REQ if not sc.client else [(b':status', b'200')])
        for _ in range(ch.int(1, 3)):
            k = ch.pick(['open', 'open', 'push', 'data', 'settings', 'ping', 'wu', 'rst', 'settings-ack', 'settings-ack'])
            sid = ch.pick([1, 3, 5, 7, 9, 11, 101, 2, 4])
            chunks.append({'open': wire.headers(sid, blk, end_stream=ch.bool()),
                           'push': wire.push_promise(ch.pick([1, 3, 5]), ch.pick([2, 4, 6, 100]), blk),
                           'data': wire.data(sid, b'x' * ch.int(0, 9)), 'settings': wire.settings([(3, 1)]),
                           'ping': wire.ping(b'12345678'), 'wu': wire.window_update(ch.pick([0, sid]), 5),
                           'settings-ack': wire.settings(ack=True),
                           'rst': wire.rst_stream(sid, 8)}[k])
    local_at = ch.int(0, len(chunks)) if ack_data else -1
    kept = []
    for ci, chunk in enumerate(chunks):
        if ci == local_at:
            # in the middle of it all the application changes its INITIAL_WINDOW_SIZE (the peer's ACK, if it
            # comes, is one of the later frames)
            try:
                c.update_settings({wire.S_INITIAL_WINDOW_SIZE: ch.pick([100, 40, 1000, 30000])})
                c.data_to_send()
            except h2.exceptions.H2Error:
                pass
        try:
            evs = c.receive_data(chunk)
        except h2.exceptions.ProtocolError as e:
            err = type(e).__name__
            kept.append(e)   # the application keeps what it caught (for its log): tracebacks and all stay alive
            continue       # the connection is closed now; what else arrives must still be handled cleanly
        except Exception as e:   # noqa: BLE001 - this is the property: anything else is a violation
            err = type(e).__name__
            r.violate('C17:%s:%s' % (type(e).__name__, innermost_h2(e.__traceback__)), repr(e)[:200])
            break
        if not isinstance(evs, list):
            r.violate('C17:returned-non-list', repr(type(evs)))
            break
        for e in evs:
            if getattr(e, 'stream_id', None) or getattr(e, 'pushed_stream_id', None):
                got_stream_event = True
            if ack_data and isinstance(e, h2.events.DataReceived) and e.flow_controlled_length:
                # the application behaves: it acknowledges what it was given (what a later frame then triggers -
                # a WINDOW_UPDATE when a settings change is acknowledged, say - belongs to receive_data again)
                try:
                    c.acknowledge_received_data(e.flow_controlled_length, e.stream_id)
                except h2.exceptions.H2Error:
                    pass
    nfr = len(wire.frame_boundaries(stream[(0 if sc.client else 24):])) - 1
    r.step('role', 'client' if sc.client else 'server', sc.cfg, 'mode', mode, 'frames', nfr, 'cuts', cuts, 'result',
           err or 'ok', stream)
    r.nontrivial = nfr >= 2 and (got_stream_event or err is not None)
    r.labels.add('mode-' + mode)
    r.labels.add('error' if err else 'no-error')
    return r


def _f05():
    from ..hpackmirror import raw_block
    from ..drive import Endpoint
    ep = Endpoint(True)
    ep.call('initiate_connection')
    ep.call('send_headers', 1, bytesgen.REQ)
    o = ep.recv(wire.settings() + wire.headers(1, raw_block([(b':status', b'200'), (b'', b'v')])))
    return [] if o.ok or o.is_protocol_error() else ['C17:%s' % o.exc_name]


def _f06():
    from ..hpackmirror import raw_block
    from ..drive import Endpoint
    ep = Endpoint(True, header_encoding='utf-8')
    ep.call('initiate_connection')
    ep.call('send_headers', 1, bytesgen.REQ)
    o = ep.recv(wire.settings() + wire.headers(1, raw_block([(b':status', b'200'), (b'x', b'\x80')])))
    return [] if o.ok or o.is_protocol_error() else ['C17:%s' % o.exc_name]


FINDINGS = {'F05-empty-header-name-indexerror': _f05, 'F06-undecodable-header-unicodeerror': _f06}
