"""C20 Frames racing a local stream reset never break the connection."""
from .. import wire
from ..choose import Chooser
from ..runner import Result
from ..solo import Solo, REQ, RESP

ID = 'C20'
LEVEL = 'exploration'
ENGINE = 'E2 solo'
TECHNIQUE = ('property-based testing with a harness-owned schedule: the endpoint resets streams (or refuses a push), '
             'then a scripted peer that has not seen the reset delivers the frames it could legitimately still have '
             'sent; invariants over exceptions, events, emitted frames, the connection window and the HPACK context')
RULE = ('cases: server or client endpoint with 3 live streams (client: optionally an accepted push); the endpoint '
        'resets one or two of them with a drawn code (client: possibly the pushed stream), optionally the closed '
        'streams are cleaned out of the stream table (open_*_streams); then 1..14 in-flight frames from a peer model '
        'that keeps to its own view of the stream and of both flow-control windows: HEADERS (response, 1xx, trailers, '
        'each adding a new field to the HPACK dynamic table), DATA of 0..16384 bytes with/without padding and '
        'END_STREAM, WINDOW_UPDATE, RST_STREAM, PRIORITY, PUSH_PROMISE on the reset stream and response HEADERS/DATA on '
        'the refused promised stream, in chunks; in about a third of the cases another live stream is then reset and '
        'the peer spends that stream\'s whole window on racing DATA frames that are mostly padding; one case in twelve instead runs with MAX_CLOSED_STREAMS lowered to 2..8 in a subclass, fills the closed-stream memory exactly and alternates racing frames on remembered streams with further closures. Oracle: no receive_data raises; no event for a reset or refused stream '
        'except PriorityUpdated; only RST_STREAM / WINDOW_UPDATE are emitted; the peer model is never blocked by the '
        'connection window although only racing DATA was sent; a header block on a live stream that refers to the '
        'fields indexed by the racing blocks decodes to exactly those fields. evaluations = receive_data calls; '
        'non-trivial = at least 3 racing frames incl. a header block or at least 40000 racing DATA bytes; distinct by '
        'trace')
ASSUMPTIONS = ['the peer model only sends what a conforming peer could have sent before seeing the reset',
               'an implementation that lets uncredited racing DATA exhaust the whole connection window is taken to '
               'have stopped replenishing it']
TIERS = {'quick': {'cases': 6000, 'size': 300},
         'thorough': {'cases': 900000, 'size': 400}}


class PeerStream:
    def __init__(self, sid, headers_sent, promised=False):
        self.sid = sid
        self.headers_sent = headers_sent     # final header block sent (request for a client peer, response for a server)
        self.ended = False
        self.reset = False
        self.win = 65535
        self.promised = promised


def memory_case(ch, r):
    """The closed-stream memory at its bound (the documented class constant MAX_CLOSED_STREAMS, lowered in a
    subclass): the endpoint remembers how the most recent MAX_CLOSED_STREAMS cleaned-up streams were closed, in
    order of closure.  Racing frames on any of those stay at stream level however often the memory was consulted
    before and however many closures came after (as long as the stream is still among the most recent ones)."""
    from ..drive import h2
    client = ch.bool()
    cap = ch.pick([2, 3, 4, 8])
    cls = type('SmallMemoryConnection', (h2.connection.H2Connection,), {'MAX_CLOSED_STREAMS': cap})
    s = Solo(client, conn=cls(h2.config.H2Configuration(client_side=client)))
    s.start()
    recent = []          # reset and cleaned-up streams, oldest first, at most cap
    nxt = [1]

    def close_one():
        sid = nxt[0]
        nxt[0] += 2
        o = s.call('send_headers', sid, REQ) if client else s.feed(wire.headers(sid, s.hblock(REQ)))
        o2 = s.call('reset_stream', sid, wire.CANCEL) if o.ok else o
        if not o.ok or not o2.ok:
            r.violate('C20:harness:memory-case-setup', '%s %s' % (o.brief(), o2.brief()))
            return False
        s.c.open_outbound_streams
        s.c.open_inbound_streams
        recent.append(sid)
        del recent[:-cap]
        return True

    for _ in range(cap + ch.int(0, 2)):
        if not close_one():
            return
    races = 0
    for stepno in range(ch.int(4, 14)):
        if r.violations:
            break
        if ch.chance(150):
            # the older half of what is remembered is asked about more often: those are the entries a memory
            # that confuses 'recently closed' with 'recently consulted' would keep for too long
            sid = ch.pick(recent[:max(1, len(recent) // 2)] + recent)
            kind = ch.pick(['headers', 'data', 'wu', 'rst'])
            if kind == 'headers':
                # (encoded only when it is sent: the simulated peer's HPACK context advances with every block)
                frame = wire.headers(sid, s.hblock([(b'x-late', b'%d' % stepno)] if not client else RESP),
                                     end_stream=not client)
            else:
                frame = {'data': wire.data(sid, b'late', end_stream=ch.bool()),
                         'wu': wire.window_update(sid, 10), 'rst': wire.rst_stream(sid, wire.CANCEL)}[kind]
            o = s.feed(frame)
            r.evals += 1
            races += 1
            r.step('racing', kind, 'on', sid, 'remembered', list(recent), o.brief())
            if not o.ok:
                r.violate('C20:%s:receive_data-raised:%s:code=%s' % ('client' if client else 'server', o.exc_name,
                                                                    o.code),
                          'memory of %d: %s on stream %d, remembered %r' % (cap, kind, sid, recent))
                break
            if any(len(e) > 1 and e[1] == sid and e[0] != 'PriorityUpdated' for e in o.events):
                r.violate('C20:%s:event-for-reset-stream' % ('client' if client else 'server'), repr(o.events))
            if any(f.type not in (wire.RST_STREAM, wire.WINDOW_UPDATE) for f in o.frames):
                r.violate('C20:%s:unexpected-output' % ('client' if client else 'server'), repr(o.frames))
        else:
            if not close_one():
                return
            r.step('another stream reset and cleaned up', nxt[0] - 2, 'remembered', list(recent))
    r.evals = max(1, r.evals)
    r.nontrivial = races >= 3
    r.labels.add('closed-stream-memory-at-its-bound')


def run_case(data):
    ch = Chooser(data)
    r = Result()
    if ch.chance(20):
        memory_case(ch, r)
        return r
    client = ch.bool()
    s = Solo(client)
    s.start()
    peer = {}
    dead = set()            # streams the endpoint reset or refused
    conn = [65535]
    blocked = [False]
    counter = [0]
    race = {'frames': 0, 'blocks': 0, 'data': 0}
    evals = [0]

    def viol(key, detail=''):
        r.violate('C20:%s:%s' % ('client' if client else 'server', key), detail)

    def feed(frames, racing=True):
        blob = b''.join(frames)
        cuts = []
        if len(blob) > 1 and ch.chance(64):
            cuts = sorted({ch.int(1, len(blob) - 1) for _ in range(ch.int(1, 3))})
        prev = 0
        outs = []
        for c in cuts + [len(blob)]:
            o = s.feed(blob[prev:c])
            prev = c
            evals[0] += 1
            outs.append(o)
            if not o.ok:
                viol('receive_data-raised:%s:code=%s' % (o.exc_name, o.code), repr(o.exc))
                return outs
            for f in o.frames:
                if f.type == wire.WINDOW_UPDATE:
                    if f.stream_id == 0:
                        conn[0] += f.f.get('inc', 0)
                    elif f.stream_id in peer:
                        peer[f.stream_id].win += f.f.get('inc', 0)
                elif f.type == wire.RST_STREAM:
                    dead.add(f.stream_id)
                elif racing:
                    viol('emitted-during-race:%s' % f.name, repr(f))
            for e in o.events:
                sid = e[2] if e[0] == 'PushedStreamReceived' else (e[1] if len(e) > 1 else None)
                if e[0] == 'PushedStreamReceived' and (e[1] in dead or e[2] in dead):
                    viol('event-for-reset-stream:%s' % e[0], repr(e))
                elif e[0] not in ('PriorityUpdated', 'PushedStreamReceived') and isinstance(sid, int) and sid in dead \
                        and e[0] not in ('RemoteSettingsChanged', 'SettingsAcknowledged', 'PingReceived',
                                         'PingAckReceived'):
                    viol('event-for-reset-stream:%s' % e[0], repr(e))
        return outs

    def new_field():
        counter[0] += 1
        return (b'x-race-%d' % counter[0], b'value-%d' % counter[0])

    # -- live streams ------------------------------------------------------
    if client:
        for sid in (1, 3, 5):
            s.call('send_headers', sid, REQ, end_stream=ch.bool())
            peer[sid] = PeerStream(sid, headers_sent=False)
        if ch.bool():
            feed([wire.headers(1, s.hblock(RESP))], racing=False)
            peer[1].headers_sent = True
        next_promise = 2
        if ch.chance(100):
            feed([wire.push_promise(3, 2, s.hblock(REQ))], racing=False)
            peer[2] = PeerStream(2, headers_sent=False, promised=True)
            next_promise = 4
    else:
        feed([wire.headers(sid, s.hblock(REQ)) for sid in (1, 3, 5)], racing=False)
        for sid in (1, 3, 5):
            peer[sid] = PeerStream(sid, headers_sent=True)
            if ch.chance(80):
                s.call('send_headers', sid, RESP)
    if r.violations:
        return r
    if ch.chance(80):
        # the endpoint lowers its own MAX_CONCURRENT_STREAMS (acknowledged) to or below what is open right now:
        # that binds new streams only; frames racing a reset open nothing
        v = ch.pick([0, 1, 3])
        o = s.call('update_settings', {wire.S_MAX_CONCURRENT_STREAMS: v})
        feed([wire.settings(ack=True)], racing=False)
        r.labels.add('local-stream-limit-lowered')
        r.step('acknowledged MAX_CONCURRENT_STREAMS', v)
        if r.violations:
            return r
    # -- the endpoint resets -------------------------------------------------
    cands = sorted(peer)
    victims = [ch.pick(cands)]
    if ch.chance(80):
        v2 = ch.pick(cands)
        if v2 not in victims:
            victims.append(v2)
    live = [sid for sid in (5, 3, 1) if sid not in victims]
    for v in victims:
        o = s.call('reset_stream', v, ch.pick([8, 0, 7, 2]))
        if not o.ok:
            viol('reset_stream-refused:%s' % o.exc_name)
            return r
        dead.add(v)
    cleaned = ch.chance(110)
    if cleaned:
        _ = s.c.open_inbound_streams, s.c.open_outbound_streams
        r.labels.add('closed-streams-cleaned-up')
    r.step('setup', 'client' if client else 'server', 'reset', victims, 'cleaned-up', cleaned)
    # -- in-flight frames of a peer that has not seen the reset -------------------
    targets = list(victims)
    next_own = [7 if client else 2]
    for _ in range(ch.int(1, 14)):
        if r.violations:
            break
        if ch.chance(36):
            # between two racing frames the application makes a call that is refused (an opening block that fails
            # validation, a push or DATA on the stream it has just reset): nothing is sent, and the connection
            # remembers its reset streams exactly as before
            v = ch.pick(victims)
            how = ch.pick(['bad-open', 'on-victim', 'on-victim'] if client else ['push-on-victim', 'on-victim'])
            if how == 'bad-open':
                o = s.call('send_headers', next_own[0], [(b':method', b'GET'), (b':scheme', b'https'),
                                                         (b':authority', b'a'), (b'te', b'gzip')])
            elif how == 'push-on-victim':
                o = s.call('push_stream', v, next_own[0], REQ)
            else:
                o = s.call(*ch.pick([('send_data', v, b'x'), ('end_stream', v)]))
            r.step('refused application call', how, v, o.brief())
            if o.ok:
                viol('call-on-reset-stream-accepted:%s' % how, repr(o.frames)[:100])
                break
            if o.out:
                viol('refused-call-emitted:%s' % how, o.out.hex()[:40])
            r.labels.add('refused-call-between-racing-frames')
            continue
        sid = ch.pick(targets)
        ps = peer[sid]
        if ps.reset:
            continue
        ops = [(2, 'wu'), (1, 'prio'), (1, 'rst')]
        if not ps.ended:
            if client and not ps.headers_sent:
                ops += [(6, 'response'), (2, 'info')]
            elif ps.headers_sent:
                ops += [(8, 'data'), (2, 'trailers')]
            if client and not ps.promised and sid % 2 == 1:
                ops += [(4, 'push')]
        op = ch.weighted(ops)
        fr = None
        if op == 'wu':
            fr = wire.window_update(sid, ch.int(1, 1000))
        elif op == 'prio':
            fr = wire.priority(sid, 0, ch.int(1, 256), False)
        elif op == 'rst':
            fr = wire.rst_stream(sid, ch.pick([0, 8]))
            ps.reset = True
        elif op in ('response', 'info', 'trailers'):
            base = {'response': RESP, 'info': [(b':status', b'103')], 'trailers': []}[op]
            es = op == 'trailers' or (op == 'response' and ch.chance(60))
            fr = wire.headers(sid, s.hblock(list(base) + [new_field()]), end_stream=es)
            race['blocks'] += 1
            if op == 'response':
                ps.headers_sent = True
            ps.ended = ps.ended or es
        elif op == 'data':
            n = ch.weighted([(4, ch.int(0, 50)), (5, 16384), (2, ch.int(1000, 16000))])
            pad = ch.pick([None, None, 0, 9])
            total = n + (0 if pad is None else pad + 1)
            if total > 16384:
                n -= total - 16384
                total = 16384
            if total > ps.win:
                continue
            if total > conn[0]:
                blocked[0] = True
                continue
            es = ch.chance(40)
            fr = wire.data(sid, b'r' * n, end_stream=es, pad=pad)
            ps.win -= total
            conn[0] -= total
            race['data'] += total
            ps.ended = es
        elif op == 'push':
            pid = next_promise
            next_promise += 2
            fr = wire.push_promise(sid, pid, s.hblock(list(REQ) + [new_field()]))
            race['blocks'] += 1
            peer[pid] = PeerStream(pid, headers_sent=False, promised=True)
            dead.add(pid)            # the endpoint must refuse it: its parent is gone
            targets.append(pid)
        if fr is None:
            continue
        race['frames'] += 1
        r.step('in-flight', op, sid, len(fr))
        feed([fr])
    # -- flood: a whole stream window of racing DATA, mostly padding, on a freshly reset stream -------------
    if live and not r.violations and ch.chance(90):
        v = live.pop()
        ps = peer[v]
        o = s.call('reset_stream', v, 8)
        if not o.ok:
            viol('reset_stream-refused:%s' % o.exc_name)
            return r
        dead.add(v)
        if ch.bool():
            _ = s.c.open_inbound_streams, s.c.open_outbound_streams
        if client and not ps.headers_sent:
            feed([wire.headers(v, s.hblock(list(RESP) + [new_field()]))])
            race['blocks'] += 1
            ps.headers_sent = True
        plen, pad = ch.pick([(0, 255), (0, 255), (100, 155), (1, 0), (256, None)])
        unit = plen + (0 if pad is None else pad + 1)
        nframes = 0
        while not r.violations and ps.win > 0:
            fc = min(unit, ps.win)
            if conn[0] < fc:
                blocked[0] = True
                break
            if fc == unit:
                fr = wire.data(v, b'f' * plen, pad=pad)
            else:
                fr = wire.data(v, b'', pad=fc - 1)
            ps.win -= fc
            conn[0] -= fc
            race['data'] += fc
            nframes += 1
            feed([fr])
            if unit < 128 and nframes >= 300:
                break
        r.step('flood', v, 'payload', plen, 'pad', pad, 'frames', nframes, 'peer view of connection window', conn[0])
        r.labels.add('flood')
        if not r.violations and not blocked[0] and conn[0] <= 0:
            blocked[0] = True
    if blocked[0] and not r.violations:
        viol('connection-window-exhausted-by-racing-data', 'peer view of the connection window: %d' % conn[0])
    # -- the compression context survived: a block on a live stream that uses the raced fields -----
    if not r.violations and counter[0] and live:
        fields = [(b'x-race-%d' % i, b'value-%d' % i) for i in range(1, counter[0] + 1)]
        sid = live[0]
        if client:
            base = [(b':status', b'200')] if not peer[sid].headers_sent else None
            if base is None:
                base, es = [], True
            else:
                es = False
            outs = feed([wire.headers(sid, s.hblock(base + fields), end_stream=es)], racing=False)
        elif 'local-stream-limit-lowered' in r.labels:
            # (no new stream may be opened now: the raced fields come back as trailers on a live one)
            base = []
            outs = feed([wire.headers(sid, s.hblock(fields), end_stream=True)], racing=False)
        else:
            sid = 7
            base = list(REQ)
            outs = feed([wire.headers(7, s.hblock(base + fields))], racing=False)
        if not r.violations:
            got = None
            for o in outs:
                for e in o.events:
                    if e[0] in ('RequestReceived', 'ResponseReceived', 'TrailersReceived') and e[1] == sid:
                        got = [(n, v) for n, v, _ in e[2]]
            if got != [(bytes(n), bytes(v)) for n, v in base + fields]:
                viol('header-block-after-race-decoded-wrongly', 'want %r got %r' % (base + fields, got))
    r.evals = max(1, evals[0])
    r.nontrivial = (race['frames'] >= 3 and race['blocks'] >= 1) or race['data'] >= 40000
    if race['data'] >= 40000:
        r.labels.add('racing-data>=40000')
    if any(p.promised and p.sid in dead and p.sid not in victims for p in peer.values()):
        r.labels.add('push-refused')
    return r
