"""C13 Header compression state stays synchronised across all calls."""
from hpack import Decoder

from .. import wire, headers as H
from ..choose import Chooser
from ..runner import Result
from ..solo import Solo

ID = 'C13'
LEVEL = 'exploration'
ENGINE = 'E2 solo'
TECHNIQUE = ('property-based testing: generated sequences of succeeding and failing header-carrying calls with a '
             'harness-owned HPACK decoder mirroring the peer (round-trip oracle on every emitted block)')
RULE = ('cases: 4..30 header-carrying calls (send_headers requests / responses / informational / trailers, '
        'push_stream) on several streams, valid lists and lists failing for each reason (validation: missing or '
        'duplicated pseudo-header, forbidden field late in the list; trailers without END_STREAM; priority on a '
        'server; invalid weight; self-dependency; closed stream), sharing field names and values so later blocks '
        'use the dynamic table, interleaved with peer HEADER_TABLE_SIZE changes (0, small, large); every emitted '
        'block must decode, in order, to the normalised list of the successful call, raising calls emit nothing; '
        'non-trivial = a raising header-carrying call followed by a successful block that references the dynamic '
        'table; distinct by trace')
ASSUMPTIONS = ['the mirror decoder (hpack.Decoder) is given the table-size limit the harness announced']
TIERS = {'quick': {'cases': 5000, 'size': 300},
         'thorough': {'cases': 600000, 'size': 400}}

SHARED = [(b'user-agent', b'h2verif/1.0 (long enough to index)'), (b'accept', b'text/html,application/xml'),
          (b'x-request-id', b'0123456789abcdef'), (b'cache-control', b'no-cache'),
          (b'x-shared', b'value-shared-by-many-blocks'), (b'cookie', b'session=0123456789abcdefghijklmnop')]


def req(ch, path):
    if ch.chance(40):
        # the same as text, with a host name outside ASCII (sent as UTF-8 like any other text value)
        return [(':method', 'GET'), (':scheme', 'https'), (':authority', 'b\u00fccher.example'),
                (':path', path.decode('ascii'))] + [ch.pick(SHARED) for _ in range(ch.int(1, 3))]
    return [(b':method', b'GET'), (b':scheme', b'https'), (b':authority', b'example.com'), (b':path', path)] + \
        [ch.pick(SHARED) for _ in range(ch.int(1, 3))]


def break_list(ch, hs, kind):
    """Make a list invalid in a way the *lazy* validation notices late."""
    hs = list(hs)
    how = ch.pick(['dup-pseudo', 'forbidden-late', 'te-late', 'missing-pseudo', 'pseudo-late', 'unknown-pseudo',
                   'unencodable'])
    if how == 'unencodable':
        # text that cannot be encoded as UTF-8 (a lone surrogate, e.g. from a surrogateescape decode), after a
        # fresh field the encoder would add to its table first
        hs.append((b'x-new-%d' % ch.int(0, 9), b'fresh-value-before-bad-text-%d' % ch.int(0, 99)))
        hs.append(('x-bad-text', 'v\udcff'))
        return hs, how
    if how == 'dup-pseudo':
        ps = [h for h in hs if h[0][:1] in (b':', ':')]
        hs.insert(len(ps), ps[-1]) if ps else hs.append((b':foo', b'x'))
    elif how == 'forbidden-late':
        hs.append((b'x-new-%d' % ch.int(0, 9), b'fresh-value-to-index-%d' % ch.int(0, 99)))
        hs.append((b'te', b'gzip'))
    elif how == 'te-late':
        hs.append((b'te', b'deflate'))
    elif how == 'missing-pseudo':
        ps = [i for i, h in enumerate(hs) if h[0][:1] in (b':', ':')]
        if ps:
            del hs[ps[-1]]
        hs.append((b'x-new-%d' % ch.int(0, 9), b'another-fresh-value-%d' % ch.int(0, 99)))
    elif how == 'pseudo-late':
        hs.append((b'x-new-%d' % ch.int(0, 9), b'late-value-%d' % ch.int(0, 99)))
        hs.append((b':path', b'/late') if kind != 'response' else (b':status', b'201'))
    else:
        hs.insert(0, (b':unknown', b'x'))
        hs.append((b'x-new-%d' % ch.int(0, 9), b'unk-value-%d' % ch.int(0, 99)))
    return hs, how


def run_case(data):
    ch = Chooser(data)
    r = Result()
    client = ch.bool()
    # with outbound validation off (one case in six) only the failure reasons that do not rest on validation
    # are generated
    novalidate = ch.chance(42)
    s = Solo(client, **({'validate_outbound_headers': False} if novalidate else {}))
    if novalidate:
        r.labels.add('validate_outbound_headers=False')
    upgraded = (not client) and ch.chance(36)
    next_local = 1 if client else 2
    next_peer = 1
    live = []            # streams on which we may still send headers (trailers / response)
    if upgraded:
        # h2c: the client's HEADER_TABLE_SIZE arrives in the HTTP2-Settings header and binds the very first block
        # the server sends (RFC 7540 s3.2.1: the 101 response is the acknowledgement), before any SETTINGS frame
        import base64
        import struct
        v = ch.pick([0, 100, 4096, 1000])
        s.call('initiate_upgrade_connection',
               base64.urlsafe_b64encode(struct.pack('>HI', wire.S_HEADER_TABLE_SIZE, v)).rstrip(b'='))
        s.note_peer_settings([(wire.S_HEADER_TABLE_SIZE, v)])
        r.step('h2c upgrade', 'HEADER_TABLE_SIZE', v)
        r.labels.add('h2c-upgrade')
        next_peer = 3
        upgrade_settings = wire.PREFACE + wire.settings([(wire.S_HEADER_TABLE_SIZE, v)]) + wire.settings(ack=True)
        first = [(b':status', b'200')] + [ch.pick(SHARED) for _ in range(ch.int(1, 3))]
        before = ch.bool()
        if before:
            s.feed(upgrade_settings)
        o = s.call('send_headers', 1, first)
        r.step('response on stream 1', 'client SETTINGS frame already received' if before else
               'before the client SETTINGS frame', first, o.brief())
        if not o.ok:
            r.violate('C13:harness:upgrade-response-refused', o.brief())
            return r
        blocks = [f for f in o.frames if f.type == wire.HEADERS]
        got = blocks[0].f.get('headers') if blocks else None
        if got is None:
            r.violate('C13:block-undecodable-by-peer:%s' % (blocks[0].f.get('decode_error') if blocks else None),
                      'first block after the h2c upgrade')
            return r
        if [(n, v_) for n, v_, _ in got] != first:
            r.violate('C13:peer-decodes-different-list', 'upgrade: want %r got %r' % (first, got))
            return r
        if not before:
            s.feed(upgrade_settings)
        live.append(1)
    else:
        s.start()
    upgrade_settings = None
    r.step('role', 'client' if client else 'server')
    raised_before = False
    nontrivial = False
    pending_size_change = False
    last_ok_push = None
    last_size = None
    reserved = set()       # promised streams whose response has not been sent
    ncalls = ch.int(4, 30)

    def check_ok(o, hdrs, what):
        nonlocal nontrivial, pending_size_change
        blocks = [f for f in o.frames if f.type in (wire.HEADERS, wire.PUSH_PROMISE)]
        if len(blocks) != 1:
            r.violate('C13:no-single-block:%s' % what, repr(o.frames))
            return False
        got = blocks[0].f.get('headers')
        want = H.normalize_outbound([(n, v, False) for n, v in hdrs])
        if got is None:
            r.violate('C13:block-undecodable-by-peer:%s' % blocks[0].f.get('decode_error'), what)
            return False
        if [(n, v) for n, v, _ in got] != [(n, v) for n, v, _ in want]:
            r.violate('C13:peer-decodes-different-list', '%s want %r got %r' % (what, want, got))
            return False
        # did the block use the dynamic table?
        blk = b''.join(f.f['block'] for f in o.frames if 'block' in f.f)
        try:
            fresh = Decoder().decode(blk, raw=True)
            uses_dynamic = [(bytes(a), bytes(b)) for a, b in fresh] != [(n, v) for n, v, _ in got]
        except Exception:   # noqa: BLE001 - a fresh decoder cannot resolve dynamic references
            uses_dynamic = True
        pending_size_change = False
        if uses_dynamic:
            r.labels.add('dynamic-table-reference')
            if raised_before:
                nontrivial = True
        return True

    def check_raise(o, what):
        if not o.is_h2error():
            r.labels.add('non-h2-exception:' + o.exc_name)
        if o.out:
            r.violate('C13:raising-call-emitted:%s' % what, o.out.hex()[:80])

    for i in range(ncalls):
        if r.violations:
            break
        if upgrade_settings is not None and i == 1:
            s.feed(upgrade_settings)       # the client's preface and SETTINGS frame arrive after our first block
            upgrade_settings = None
        op = ch.weighted([(5, 'open-ok'), (4, 'open-bad'), (3, 'follow-ok'), (3, 'follow-bad'), (2, 'table-size'),
                          (2, 'push-ok' if not client else 'open-ok'), (2, 'push-bad' if not client else 'open-bad'),
                          (2, 'other-settings')] + ([(1, 'promised-then-smaller-frames')] if not client else []))
        if upgrade_settings is not None and op in ('table-size', 'other-settings'):
            op = 'follow-ok'
        if op == 'promised-then-smaller-frames':
            # a stream is promised while the peer allows large frames, the peer then lowers MAX_FRAME_SIZE, and the
            # response on the promised stream needs more than one frame of the new size: it is sliced by the new
            # size (a stale per-stream copy would make the call fail after the block has been encoded)
            parents = [x for x in live if x % 2 == 1]
            if not parents or upgrade_settings is not None:
                continue
            hi, lo = ch.pick([32768, 65536]), ch.pick([16384, 20000])
            for v_ in (hi,):
                s.feed(wire.settings([(wire.S_MAX_FRAME_SIZE, v_)]))
            pid = next_local
            next_local += 2
            hs = req(ch, b'/pushed-early')
            o = s.call('push_stream', ch.pick(parents), pid, hs)
            r.step('push_stream while MAX_FRAME_SIZE is', hi, pid, o.brief())
            if not o.ok:
                check_raise(o, 'push')
                continue
            check_ok(o, hs, 'push')
            s.feed(wire.settings([(wire.S_MAX_FRAME_SIZE, lo)]))
            resp = [(b':status', b'200'), ch.pick(SHARED), (b'x-big', b'B' * ch.int(lo + 10, hi - 100))]
            o = s.call('send_headers', pid, resp)
            r.step('response on the promised stream after MAX_FRAME_SIZE went down to', lo, o.brief(),
                   [(f.name, f.length) for f in o.frames])
            if o.ok:
                check_ok(o, resp, 'pushed-response')
                live.append(pid)
            else:
                r.violate('C13:valid-block-refused:pushed-response:%s' % o.exc_name, repr(o.exc)[:120])
                check_raise(o, 'pushed-response')
            r.labels.add('promised-then-smaller-frames')
            continue
        if op == 'other-settings':
            # a SETTINGS frame that does not mention the table size leaves a pending size change pending
            if ch.chance(64):
                # our own MAX_FRAME_SIZE is raised and acknowledged while streams exist: what we may *receive*
                # has nothing to do with how our header blocks are sliced for the peer
                o = s.call('update_settings', {wire.S_MAX_FRAME_SIZE: ch.pick([32768, 65536])})
                o2 = s.feed(wire.settings(ack=True)) if o.ok else o
                r.step('our MAX_FRAME_SIZE raised and acknowledged', o.brief(), o2.brief())
                r.labels.add('local-max-frame-size-raised')
                continue
            other = ch.pick([[], [(wire.S_MAX_CONCURRENT_STREAMS, 100)],
                             [(wire.S_INITIAL_WINDOW_SIZE, 70000), (0x4d, 1)],
                             [(wire.S_MAX_FRAME_SIZE, ch.pick([16384, 32768, 20000, 65536]))]])
            o = s.feed(wire.settings(other))
            s.note_peer_settings(other)      # the output monitor holds every later frame to the announced size
            r.step('peer SETTINGS without HEADER_TABLE_SIZE', other, o.brief())
            if pending_size_change and v == last_size:
                # the same value again is no change: the update that is still owed must still be sent (F35)
                o = s.feed(wire.settings([(wire.S_HEADER_TABLE_SIZE, v), (wire.S_MAX_CONCURRENT_STREAMS, 99)]))
                r.step('peer repeats HEADER_TABLE_SIZE', v, o.brief())
                r.labels.add('table-size-repeated-while-pending')
                continue
            if pending_size_change:
                r.labels.add('other-settings-while-size-change-pending')
            continue
        if op == 'table-size':
            v = ch.pick([0, 64, 100, 4096, 8192, 300])
            if pending_size_change:
                # several changes before our next header block: the block must open with the smallest size and
                # then the final one (RFC 7541 s4.2), never with a value above the limit the peer has by then
                # (F36); the mirror decoder holds the last announced limit
                r.labels.add('several-table-size-changes-before-next-block')
            pending_size_change = True
            last_size = v
            # alone, or in one SETTINGS frame with other settings on either side of it
            pairs = [(wire.S_HEADER_TABLE_SIZE, v)]
            others = [(wire.S_INITIAL_WINDOW_SIZE, ch.pick([65535, 70000, 100000])), (wire.S_MAX_FRAME_SIZE, 16384),
                      (wire.S_MAX_CONCURRENT_STREAMS, 100), (wire.S_MAX_HEADER_LIST_SIZE, 65536), (0x4d, 7)]
            for _ in range(ch.pick([0, 0, 1, 2])):
                extra = ch.pick(others)
                if extra[0] not in [p_[0] for p_ in pairs]:
                    pairs.insert(ch.int(0, len(pairs)), extra)
            if len(pairs) > 1:
                r.labels.add('table-size-with-other-settings')
            o = s.feed(wire.settings(pairs))
            s.note_peer_settings([(wire.S_HEADER_TABLE_SIZE, v)])
            r.step('peer HEADER_TABLE_SIZE', v, o.brief())
            continue
        if op in ('open-ok', 'open-bad'):
            if client:
                sid = next_local
                next_local += 2
                hs = req(ch, b'/p%d' % ch.int(0, 5))
                kind = 'request'
            else:
                sid = next_peer
                next_peer += 2
                s.feed(wire.headers(sid, s.hblock(req(ch, b'/in'))))
                hs = [(b':status', ch.pick([b'200', b'404']))] + [ch.pick(SHARED) for _ in range(ch.int(1, 3))]
                kind = 'response'
            if op == 'open-bad':
                how = ch.pick(['list', 'list', 'weight', 'self-dep', 'server-priority'])
                if novalidate and how == 'list':
                    how = 'unencodable-only'
                kw = {}
                if how == 'unencodable-only':
                    hs = hs + [(b'x-new-%d' % ch.int(0, 9), b'fresh-value-before-bad-text-%d' % ch.int(0, 99)),
                               ('x-bad-text', 'v\udcff')]
                    how = 'unencodable'
                elif how == 'list':
                    hs, how = break_list(ch, hs, kind)
                elif how == 'weight':
                    kw = {'priority_weight': ch.pick([0, 257, 1000, -1])}
                elif how == 'self-dep':
                    kw = {'priority_depends_on': sid}
                else:
                    kw = {'priority_weight': 10}
                    if client:
                        kw = {'priority_weight': 0}
                o = s.call('send_headers', sid, hs, **kw)
                r.step('send_headers(bad:%s)' % how, sid, hs, kw, o.brief())
                if o.ok and how == 'unencodable':
                    r.violate('C13:unencodable-text-accepted', repr(o.frames)[:200])
                elif o.ok:
                    r.labels.add('bad-accepted:' + how)
                    check_ok(o, hs, how)
                    live.append(sid)
                else:
                    check_raise(o, how)
                    raised_before = True
                    if ch.bool():
                        # the refused call never happened: the same block, repaired, goes out on the same stream
                        good = [(b':status', b'200')] if kind == 'response' else req(ch, b'/retry')
                        good = good + [ch.pick(SHARED)]
                        o = s.call('send_headers', sid, good)
                        r.step('send_headers (retry after refusal)', sid, good, o.brief())
                        if o.ok:
                            check_ok(o, good, 'retry')
                            live.append(sid)
                        else:
                            r.violate('C13:valid-block-refused-after-refused-call:%s:%s' % (how, o.exc_name),
                                      repr(o.exc))
            else:
                kw = {}
                if ch.chance(20):
                    # a block that needs CONTINUATION frames, with priority fields in its first frame (client)
                    hs = hs + [(b'x-big', b'B' * ch.pick([16380, 17000, 33000]))]
                    if client:
                        kw = {'priority_weight': ch.int(1, 256)}
                    r.labels.add('multi-frame-block')
                o = s.call('send_headers', sid, hs, **kw)
                r.step('send_headers', sid, hs, kw, o.brief())
                if o.ok:
                    check_ok(o, hs, 'open')
                    live.append(sid)
                else:
                    check_raise(o, 'open')
        elif op in ('follow-ok', 'follow-bad'):
            if not live:
                continue
            sid = live.pop(ch.int(0, len(live) - 1))
            tr = [(b'x-checksum', b'abcdef0123456789'), ch.pick(SHARED)]
            if op == 'follow-bad':
                how = ch.pick(['no-end-stream', 'pseudo-in-trailers', 'forbidden-late'])
                if novalidate:
                    how = 'no-end-stream'
                if how == 'no-end-stream':
                    o = s.call('send_headers', sid, tr)
                elif how == 'pseudo-in-trailers':
                    o = s.call('send_headers', sid, tr + [(b':status', b'200')], end_stream=True)
                    tr = tr + [(b':status', b'200')]
                else:
                    tr = tr + [(b'x-late', b'late-trailer-value'), (b'connection', b'close'), (b'te', b'gzip')]
                    o = s.call('send_headers', sid, tr, end_stream=True)
                r.step('trailers(bad:%s)' % how, sid, tr, o.brief())
                if o.ok:
                    r.labels.add('bad-accepted:' + how)
                    check_ok(o, tr, how)
                else:
                    check_raise(o, how)
                    raised_before = True
            elif sid in reserved:
                # the response on a promised stream, now and then one that needs several frames (sliced by the
                # peer's MAX_FRAME_SIZE of the moment, whatever it was when the stream was promised)
                reserved.discard(sid)
                resp = [(b':status', b'200'), ch.pick(SHARED)]
                if ch.chance(100):
                    resp = resp + [(b'x-big', b'B' * ch.pick([16380, 17000, 33000]))]
                    r.labels.add('multi-frame-block')
                o = s.call('send_headers', sid, resp)
                r.step('response on promised stream', sid, resp, o.brief())
                if o.ok:
                    check_ok(o, resp, 'pushed-response')
                    live.append(sid)
                else:
                    r.violate('C13:valid-block-refused:pushed-response:%s' % o.exc_name, repr(o.exc)[:120])
                    check_raise(o, 'pushed-response')
            else:
                if ch.chance(40):
                    tr = []              # empty trailers: a block all the same (it carries a pending size update)
                    r.labels.add('empty-trailers')
                elif ch.chance(40):
                    tr = tr + [(b'x-big', b'B' * ch.pick([16380, 17000, 33000]))]
                    r.labels.add('multi-frame-block')
                o = s.call('send_headers', sid, tr, end_stream=True)
                r.step('trailers', sid, tr, o.brief())
                if o.ok:
                    check_ok(o, tr, 'trailers')
                else:
                    check_raise(o, 'trailers')
        elif op in ('push-ok', 'push-bad'):
            parents = [x for x in live if x % 2 == 1]
            if not parents:
                continue
            parent = ch.pick(parents)
            pid = next_local
            next_local += 2
            hs = req(ch, b'/pushed%d' % ch.int(0, 3))
            how = 'ok'
            if op == 'push-ok' and ch.chance(24):
                hs = hs + [(b'x-big', b'B' * ch.pick([16380, 17000, 33000]))]   # promised id + CONTINUATION frames
                r.labels.add('multi-frame-block')
            if op == 'push-bad' and ch.chance(80):
                # a valid list with fresh fields, refused because of the promised id (used already, or odd)
                hs = hs + [(b'x-new-%d' % ch.int(0, 9), b'value-of-a-push-refused-for-its-id-%d' % ch.int(0, 99))]
                how = 'promised-id'
                next_local -= 2
                pid = ch.pick([next_local + 1, parent] + ([last_ok_push, last_ok_push] if last_ok_push else []))
            elif op == 'push-bad' and novalidate:
                hs = hs + [(b'x-new-%d' % ch.int(0, 9), b'fresh-before-bad-text-%d' % ch.int(0, 99)), ('x-bad-text', 'v\udcff')]
                how = 'unencodable'
            elif op == 'push-bad':
                hs, how = break_list(ch, hs, 'request')
            o = s.call('push_stream', parent, pid, hs)
            r.step('push_stream(%s)' % how, parent, pid, hs, o.brief())
            if o.ok and how in ('unencodable', 'promised-id'):
                r.violate('C13:invalid-push-accepted:%s' % how, repr(o.frames)[:200])
            elif o.ok:
                check_ok(o, hs, 'push')
                live.append(pid)
                reserved.add(pid)
                last_ok_push = pid
            else:
                check_raise(o, 'push:' + how)
                if op == 'push-bad':
                    raised_before = True
    # final probe
    if not r.violations:
        if client:
            hs = req(ch, b'/final')
            o = s.call('send_headers', next_local, hs)
        else:
            s.feed(wire.headers(next_peer, s.hblock(req(ch, b'/final-in'))))
            hs = [(b':status', b'200')] + SHARED[:3]
            o = s.call('send_headers', next_peer, hs)
        r.step('probe', hs, o.brief())
        if o.ok:
            check_ok(o, hs, 'probe')
        else:
            r.labels.add('probe-refused:' + o.exc_name)
    probs = [p for p in s.out_problems if not p.startswith('undecodable')]
    if probs:
        r.violate('C13:malformed-output', repr(probs))
    r.nontrivial = nontrivial
    if raised_before:
        r.labels.add('raise-seen')
    return r


def _f14():
    keys = []
    s = Solo(False)
    s.start()
    hs = [(b':status', b'200'), SHARED[0], SHARED[1]]
    for sid in (1, 3, 5):
        s.feed(wire.headers(sid, s.hblock(req(Chooser(b''), b'/'))))
    s.call('send_headers', 1, hs[:2])
    o = s.call('send_headers', 3, hs, priority_weight=10)          # RFC1122Error
    o2 = s.call('send_headers', 5, [(b':status', b'200'), SHARED[1]])
    if o.ok or not o2.ok or o2.frames[0].f.get('headers') is None or \
            [(n, v) for n, v, _ in o2.frames[0].f['headers']] != [(b':status', b'200'), SHARED[1]]:
        keys.append('C13:peer-decodes-different-list')
    c = Solo(True)
    c.start()
    c.call('send_headers', 1, req(Chooser(b''), b'/a'))
    bad = req(Chooser(b''), b'/b') + [(b'x-new', b'fresh-value-to-index'), (b'te', b'gzip')]
    o = c.call('send_headers', 3, bad)
    o2 = c.call('send_headers', 5, req(Chooser(b''), b'/c') + [(b'x-new', b'fresh-value-to-index')])
    if o.ok or not o2.ok or o2.frames[0].f.get('headers') is None:
        keys.append('C13:block-undecodable-by-peer')
    return keys


def _f33():
    """Header text that cannot be encoded, behind a fresh field; then a block that uses that field."""
    keys = []
    c = Solo(True)
    c.start()
    base = req(Chooser(b''), b'/a')
    o = c.call('send_headers', 1, base + [(b'x-new', b'fresh-value-1'), ('x-bad-text', 'v\udcff')])
    o2 = c.call('send_headers', 1, base + [(b'x-new', b'fresh-value-1'), (b'x-other', b'zzz')])
    if o.ok or o.out:
        keys.append('C13:unencodable-text-accepted')
    elif not o2.ok or o2.frames[0].f.get('headers') is None:
        keys.append('C13:block-undecodable-by-peer')
    return keys


def _f35():
    """The peer mentions the same HEADER_TABLE_SIZE twice before our next block (plain, and via an h2c upgrade)."""
    import base64
    import struct
    keys = []
    c = Solo(True)
    c.start()
    for frame in ([(wire.S_HEADER_TABLE_SIZE, 0)], [(wire.S_HEADER_TABLE_SIZE, 0), (wire.S_MAX_CONCURRENT_STREAMS, 50)]):
        c.feed(wire.settings(frame))
    c.note_peer_settings([(wire.S_HEADER_TABLE_SIZE, 0)])
    o = c.call('send_headers', 1, req(Chooser(b''), b'/a'))
    if not o.ok or o.frames[0].f.get('headers') is None:
        keys.append('C13:block-undecodable-by-peer')
    s = Solo(False)
    s.call('initiate_upgrade_connection', base64.urlsafe_b64encode(struct.pack('>HI', 1, 0)).rstrip(b'='))
    s.note_peer_settings([(wire.S_HEADER_TABLE_SIZE, 0)])
    s.feed(wire.PREFACE + wire.settings([(wire.S_HEADER_TABLE_SIZE, 0)]) + wire.settings(ack=True))
    o = s.call('send_headers', 1, [(b':status', b'200'), SHARED[0]])
    blocks = [f for f in o.frames if f.type == wire.HEADERS]
    if not o.ok or not blocks or blocks[0].f.get('headers') is None:
        keys.append('C13:block-undecodable-by-peer:upgrade')
    return keys


def _f36():
    """The peer changes HEADER_TABLE_SIZE several times before our next block: raise then lower, lower then raise."""
    keys = []
    for seq in ([8192, 100], [64, 0], [0, 4096], [8192, 64, 300]):
        c = Solo(True)
        c.start()
        for v in seq:
            c.feed(wire.settings([(wire.S_HEADER_TABLE_SIZE, v)]))
            c.note_peer_settings([(wire.S_HEADER_TABLE_SIZE, v)])
        o = c.call('send_headers', 1, req(Chooser(b''), b'/a'))
        o2 = c.call('send_headers', 3, req(Chooser(b''), b'/a'))
        for x in (o, o2):
            if not x.ok or x.frames[0].f.get('headers') is None:
                keys.append('C13:block-undecodable-by-peer')
    return keys


FINDINGS = {'F14-encoder-ahead-after-raising-call': _f14,
            'F36-several-table-size-changes-listed-in-full': _f36,
            'F33-unencodable-header-text-desynchronises-hpack': _f33,
            'F35-repeated-header-table-size-drops-size-update': _f35}
