"""C12 SETTINGS values are validated with the RFC-mandated error codes."""
import itertools

from .. import wire
from ..choose import Chooser
from ..runner import Result
from ..solo import Solo, REQ, RESP
from ..drive import h2

ID = 'C12'
LEVEL = 'exploration'
ENGINE = 'E2 solo'
TECHNIQUE = ('property-based testing: exhaustive boundary grid + generated (id, value, channel) '
             'points against an RFC 7540 s6.5.2 / RFC 8441 s3 verdict table')
GRID_EXHAUSTIVE = True
GRID_NOTE = ('the grid ids x values x channel x role is enumerated completely; the id/value space '
             'outside the grid is sampled by the generated part')
RULE = ('grid: identifiers {0..10,255,256,0xFFFF} x values {0,1,2,3,2^14-1,2^14,2^14+1,2^24-1,2^24,'
        '2^31-1,2^31,2^32-1} x channel {received SETTINGS frame, update_settings, Settings(initial_values)} '
        'x role, every point counted as non-trivial; generated: (id, value) with values within 2 of a '
        'boundary or uniform, multi-pair frames, and stream-window overflow scenarios (WINDOW_UPDATE then '
        'INITIAL_WINDOW_SIZE raise); generated points are non-trivial when a value is within 2 of a range '
        'boundary or the scenario is a window-overflow one; distinct by concrete trace')
ASSUMPTIONS = ['hyperframe masks setting ids with 0xFF when serialising: ids > 255 are not passed to '
               'update_settings', 'duplicate ids inside one received frame are not generated '
               '(hyperframe keeps only the last)']
TIERS = {'quick': {'cases': 5000, 'size': 64},
         'thorough': {'cases': 2000000, 'size': 64}}

IDS = list(range(0, 11)) + [255, 256, 0xFFFF]
VALUES = [0, 1, 2, 3, 2**14 - 1, 2**14, 2**14 + 1, 2**24 - 1, 2**24, 2**31 - 1,
          2**31, 2**32 - 1]
BOUNDS = [0, 1, 2**14, 2**24 - 1, 2**31 - 1, 2**32 - 1]
P, F = wire.PROTOCOL_ERROR, wire.FLOW_CONTROL_ERROR


def verdict(sid, value):
    """RFC verdict: 0 = acceptable, else the mandated error code."""
    if sid == wire.S_ENABLE_PUSH or sid == wire.S_ENABLE_CONNECT_PROTOCOL:
        return 0 if value in (0, 1) else P
    if sid == wire.S_INITIAL_WINDOW_SIZE:
        return 0 if value <= 2**31 - 1 else F
    if sid == wire.S_MAX_FRAME_SIZE:
        return 0 if 2**14 <= value <= 2**24 - 1 else P
    return 0


def check_received(r, client, pairs, tag):
    s = Solo(client)
    s.start()
    o = s.feed(wire.settings(pairs))
    want = 0
    for k, v in pairs:
        want = want or verdict(k, v)
    r.step('recv-settings', 'client' if client else 'server', pairs, o.brief())
    goaways = [f for f in o.frames if f.type == wire.GOAWAY]
    if want == 0:
        if not o.ok:
            r.violate('C12:recv:valid-rejected:%s' % tag, '%r %s' % (pairs, o.brief()))
            return
        ch = [e for e in o.events if e[0] == 'RemoteSettingsChanged']
        if len(ch) != 1:
            r.violate('C12:recv:no-single-change-event:%s' % tag, repr(o.events))
            return
        new = {k: n for k, _, n in ch[0][1]}
        for k, v in pairs:
            if new.get(k) != v:
                r.violate('C12:recv:value-not-applied:%s' % tag, '%r -> %r' % (pairs, ch))
        acks = [f for f in o.frames if f.type == wire.SETTINGS and f.f['ack']]
        if len(acks) != 1 or goaways:
            r.violate('C12:recv:valid-not-acked-once:%s' % tag, repr(o.frames))
    else:
        if o.ok:
            r.violate('C12:recv:invalid-accepted:%s' % tag, repr(pairs))
            return
        if not o.is_protocol_error():
            r.violate('C12:recv:wrong-exception:%s:%s' % (o.exc_name, tag), repr(pairs))
            return
        if o.code != want:
            r.violate('C12:recv:wrong-exception-code:got=%s:want=%s:%s' % (o.code, want, tag), repr(pairs))
        if len(goaways) != 1 or goaways[0].f.get('code') != want:
            r.violate('C12:recv:wrong-goaway:want=%s:%s' % (want, tag), repr(o.frames))


def check_update(r, client, pairs, tag):
    s = Solo(client)
    s.start()
    want = 0
    for k, v in pairs:
        want = want or verdict(k, v)
    o = s.call('update_settings', dict(pairs))
    r.step('update_settings', 'client' if client else 'server', pairs, o.brief())
    if want == 0:
        if not o.ok:
            r.violate('C12:update:valid-rejected:%s' % tag, '%r %s' % (pairs, o.brief()))
            return
        fs = [f for f in o.frames if f.type == wire.SETTINGS and not f.f['ack']]
        if len(o.frames) != 1 or len(fs) != 1 or sorted(fs[0].f['settings']) != sorted(pairs) \
                or fs[0].problems:
            r.violate('C12:update:wrong-frame:%s' % tag, repr(o.frames))
    else:
        if o.ok:
            r.violate('C12:update:invalid-accepted:%s' % tag, repr(pairs))
            return
        if not isinstance(o.exc, h2.exceptions.InvalidSettingsValueError):
            r.violate('C12:update:wrong-exception:%s:%s' % (o.exc_name, tag), repr(pairs))
        elif o.code != want:
            r.violate('C12:update:wrong-code:got=%s:want=%s:%s' % (o.code, want, tag), repr(pairs))
        if o.out:
            r.violate('C12:update:refused-but-emitted:%s' % tag, o.out.hex())


def check_initial(r, client, pairs, tag):
    want = 0
    for k, v in pairs:
        want = want or verdict(k, v)
    try:
        st = h2.settings.Settings(client=client, initial_values=dict(pairs))
        ok, e = True, None
    except Exception as ex:   # noqa: BLE001
        ok, e = False, ex
    r.step('Settings(initial_values)', pairs, 'ok' if ok else type(e).__name__)
    if want == 0:
        if not ok:
            r.violate('C12:initial:valid-rejected:%s' % tag, '%r %r' % (pairs, e))
        else:
            for k, v in pairs:
                if st[k] != v:
                    r.violate('C12:initial:value-not-stored:%s' % tag, repr(pairs))
    else:
        if ok:
            r.violate('C12:initial:invalid-accepted:%s' % tag, repr(pairs))
        elif not isinstance(e, h2.exceptions.InvalidSettingsValueError):
            r.violate('C12:initial:wrong-exception:%s:%s' % (type(e).__name__, tag), repr(pairs))
        elif int(e.error_code) != want:
            r.violate('C12:initial:wrong-code:got=%s:want=%s:%s' % (int(e.error_code), want, tag),
                      repr(pairs))


def check_upgrade(r, client, pairs, tag):
    """Settings received in the HTTP2-Settings header of an h2c upgrade (server side only): the same verdicts and
    codes as for a received SETTINGS frame; nothing has been sent yet, so there is no GOAWAY to look at."""
    import base64
    import struct
    want = 0
    for k, v in pairs:
        want = want or verdict(k, v)
    payload = b''.join(struct.pack('>HI', k, v) for k, v in pairs)
    s = Solo(False)
    o = s.call('initiate_upgrade_connection', base64.urlsafe_b64encode(payload).rstrip(b'='))
    r.step('initiate_upgrade_connection', pairs, o.brief())
    if want == 0:
        if not o.ok:
            r.violate('C12:upgrade:valid-rejected:%s' % tag, '%r %s' % (pairs, o.brief()))
            return
        for k, v in pairs:
            try:
                got = s.c.remote_settings[k]
            except KeyError:
                got = None
            if got != v and [p_ for p_ in pairs if p_[0] == k][-1][1] == v:
                r.violate('C12:upgrade:value-not-applied:%s' % tag, '%r: %r' % (pairs, got))
    else:
        if o.ok:
            r.violate('C12:upgrade:invalid-accepted:%s' % tag, repr(pairs))
        elif not o.is_protocol_error():
            r.violate('C12:upgrade:wrong-exception:%s:%s' % (o.exc_name, tag), repr(pairs))
        elif o.code != want:
            r.violate('C12:upgrade:wrong-code:got=%s:want=%s:%s' % (o.code, want, tag), repr(pairs))


CHANNELS = {'recv': check_received, 'update': check_update, 'initial': check_initial, 'upgrade': check_upgrade}


def tag_of(k, v):
    """Stable key fragment: the identifier and the region the value lies in."""
    if k in (2, 8):
        reg = 'in' if v in (0, 1) else 'out'
    elif k == 4:
        reg = 'in' if v <= 2**31 - 1 else 'out'
    elif k == 5:
        reg = 'low' if v < 2**14 else ('in' if v <= 2**24 - 1 else 'high')
    else:
        reg = 'any'
    return 'id=%d:%s' % (k if k <= 10 else -1, reg)


def grid_items(tier):
    for k, v, chn, client in itertools.product(IDS, VALUES, sorted(CHANNELS), (True, False)):
        if chn == 'update' and k > 255:
            continue
        if chn == 'upgrade' and client:
            continue
        yield (k, v, chn, client)


def run_grid_item(it):
    k, v, chn, client = it
    r = Result()
    CHANNELS[chn](r, client, [(k, v)], tag_of(k, v))
    r.nontrivial = True
    r.labels.add('grid:' + chn)
    return r


def overflow_case(r, ch):
    """Stream window raised by WINDOW_UPDATE, then INITIAL_WINDOW_SIZE changed."""
    client = ch.bool()
    s = Solo(client)
    s.start()
    if client:
        s.call('send_headers', 1, REQ)
    else:
        s.feed(wire.headers(1, s.hblock(REQ)))
    top = 2**31 - 1
    target = 1
    if ch.chance(56):
        return local_overflow_case(r, ch, s, client)
    kind = ch.weighted([(3, 'open'), (2, 'promised'), (1, 'half-closed'), (2, 'closed')])
    if kind == 'closed':
        # the stream has been closed (reset by either side, or ended both ways) and the library may still hold it:
        # window increments for it, ours or the peer's, are void, so no later in-range INITIAL_WINDOW_SIZE - from
        # the peer, or our own once acknowledged - can overflow anything
        how = ch.pick(['local-rst', 'peer-rst'])
        o = s.call('reset_stream', 1) if how == 'local-rst' else s.feed(wire.rst_stream(1, wire.CANCEL))
        inc = ch.boundary([1, top - 65535, 2**30, top], 1, top)
        o1 = s.feed(wire.window_update(1, inc)) if o.ok else o
        o2 = s.call('increment_flow_control_window', min(inc, top - 65535), 1)      # refused: the stream is closed
        v = ch.boundary([65536, 70000, top, 0], 0, top)
        if ch.bool():
            o3 = s.feed(wire.settings([(wire.S_INITIAL_WINDOW_SIZE, v)]))
        else:
            o3 = s.call('update_settings', {wire.S_INITIAL_WINDOW_SIZE: v})
            o3 = s.feed(wire.settings(ack=True)) if o3.ok else o3
        r.step('closed stream', how, 'WINDOW_UPDATE', inc, o1.brief(), 'local increment', o2.brief(),
               'INITIAL_WINDOW_SIZE', v, o3.brief())
        if not o.ok or not o1.ok:
            r.violate('C12:closed-stream:window-update-on-closed-stream-rejected', '%s %s' % (o.brief(), o1.brief()))
        elif not o3.ok:
            r.violate('C12:closed-stream:legal-change-rejected:%s' % o3.exc_name, 'inc=%d iws=%d' % (inc, v))
        r.nontrivial = True
        r.labels.add('overflow-scenario-on-closed-stream')
        return
    if kind == 'promised' and not client:
        # a stream the server has promised but not yet answered (reserved (local)) has a send window too
        o = s.call('push_stream', 1, 2, REQ)
        if not o.ok:
            r.violate('C12:harness:push-failed', o.brief())
            return
        target = 2
        r.labels.add('overflow-on-promised-stream')
    elif kind == 'half-closed':
        # the peer has ended its side; we can still send, so the window still counts
        if client:
            s.feed(wire.headers(1, s.hblock([(b':status', b'200')]), end_stream=True))
        else:
            s.feed(wire.data(1, b'', end_stream=True))
        r.labels.add('overflow-on-half-closed-remote-stream')
    inc = ch.boundary([1, top - 65535, top - 65535 - 1, 2**30], 1, top - 65535)
    o = s.feed(wire.window_update(target, inc))
    if not o.ok:
        r.violate('C12:overflow:legal-window-update-rejected', '%d %s' % (inc, o.brief()))
        return
    win = 65535 + inc
    # new initial window size near the value that makes the stream window hit 2^31-1
    edge = top - win + 65535
    v = ch.boundary([edge, edge + 1, 0, top], 0, top)
    o = s.feed(wire.settings([(wire.S_INITIAL_WINDOW_SIZE, v)]))
    new_win = win + (v - 65535)
    r.step('overflow', 'client' if client else 'server', 'inc', inc, 'iws', v, 'new-window', new_win,
           o.brief())
    goaways = [f for f in o.frames if f.type == wire.GOAWAY]
    if new_win > top:
        if o.ok:
            r.violate('C12:overflow:accepted', 'inc=%d iws=%d' % (inc, v))
        elif not o.is_protocol_error() or o.code != F:
            r.violate('C12:overflow:wrong-error:%s:%s' % (o.exc_name, o.code), 'inc=%d iws=%d' % (inc, v))
        elif len(goaways) != 1 or goaways[0].f.get('code') != F:
            r.violate('C12:overflow:wrong-goaway', repr(o.frames))
    else:
        if not o.ok:
            r.violate('C12:overflow:legal-change-rejected:%s' % o.exc_name, 'inc=%d iws=%d' % (inc, v))
        else:
            w = s.call('local_flow_control_window', target)
            if w.ok and w.value != min(new_win, 65535):
                r.violate('C12:overflow:window-wrong', 'inc=%d iws=%d got %r' % (inc, v, w.value))
    if abs(new_win - top) <= 2:
        r.labels.add('overflow-boundary')
    r.nontrivial = True
    r.labels.add('overflow-scenario')


def local_overflow_case(r, ch, s, client):
    """The same in the other direction: the application has raised a stream's receive window with
    increment_flow_control_window, the peer may have used some of it, and the application then changes its own
    INITIAL_WINDOW_SIZE once or twice; when the peer's acknowledgement applies a change, a window that would pass
    2^31-1 is a FLOW_CONTROL_ERROR connection error, and every change that keeps it at or below is applied."""
    top = 2**31 - 1
    inc = ch.boundary([1, top - 65535, top - 65535 - 1, 2**30], 1, top - 65535)
    o = s.call('increment_flow_control_window', inc, 1)
    if not o.ok:
        r.violate('C12:local-overflow:legal-increment-refused', '%d %s' % (inc, o.brief()))
        return
    win = 65535 + inc
    used = 0
    if ch.chance(120):
        # the peer uses part of the window (never acknowledged by the application)
        used = ch.pick([1, 1000, 16384, 10000])
        o = s.feed((wire.headers(1, s.hblock(RESP)) if client else b'') + wire.data(1, b'u' * used))
        if not o.ok:
            r.violate('C12:harness:data-rejected', o.brief())
            return
        win -= used
        r.labels.add('local-overflow-after-data')
    iws = 65535
    for round_ in range(ch.pick([1, 1, 2])):
        edge = top - win + iws
        v = ch.boundary([edge, edge + 1, edge - 1, iws + used, iws + max(0, used - 1), 0, top], 0, top)
        o = s.call('update_settings', {wire.S_INITIAL_WINDOW_SIZE: v})
        if not o.ok:
            r.violate('C12:local-overflow:valid-update-refused', '%d %s' % (v, o.brief()))
            return
        o = s.feed(wire.settings(ack=True))
        new_win = win + (v - iws)
        r.step('local overflow', 'client' if client else 'server', 'inc', inc, 'used', used, 'iws', iws, '->', v,
               'new-window', new_win, o.brief())
        goaways = [f for f in o.frames if f.type == wire.GOAWAY]
        if abs(new_win - top) <= 2:
            r.labels.add('overflow-boundary')
        if new_win > top:
            if o.ok:
                r.violate('C12:local-overflow:accepted', 'inc=%d used=%d iws=%d->%d' % (inc, used, iws, v))
            elif not o.is_protocol_error() or o.code != F:
                r.violate('C12:local-overflow:wrong-error:%s:%s' % (o.exc_name, o.code), 'inc=%d iws=%d' % (inc, v))
            elif len(goaways) != 1 or goaways[0].f.get('code') != F:
                r.violate('C12:local-overflow:wrong-goaway', repr(o.frames))
            break
        if not o.ok:
            r.violate('C12:local-overflow:legal-change-rejected:%s' % o.exc_name,
                      'inc=%d used=%d iws=%d->%d' % (inc, used, iws, v))
            break
        win, iws = new_win, v
        if round_:
            r.labels.add('local-overflow-second-change')
    r.nontrivial = True
    r.labels.add('local-overflow-scenario')


def run_case(data):
    ch = Chooser(data)
    r = Result()
    mode = ch.weighted([(5, 'single'), (2, 'multi'), (2, 'overflow')])
    if mode == 'overflow':
        overflow_case(r, ch)
        return r
    chn = ch.pick(sorted(CHANNELS))
    client = ch.bool()
    n = 1 if mode == 'single' else ch.int(2, 4)
    pairs = []
    seen = set()
    near = False
    for _ in range(n):
        if ch.chance(200):
            k = ch.pick([2, 4, 5, 8, 1, 3, 6])
        else:
            k = ch.int(0, 0xFFFF)
        if chn == 'update':
            k &= 0xFF
        if k in seen:
            continue
        seen.add(k)
        v = ch.boundary(BOUNDS, 0, 2**32 - 1)
        if any(abs(v - b) <= 2 for b in BOUNDS):
            near = True
        pairs.append((k, v))
    tag = tag_of(*pairs[0]) if len(pairs) == 1 else 'multi'
    CHANNELS[chn](r, client, pairs, tag)
    r.nontrivial = near
    r.labels.add(chn)
    if len(pairs) > 1:
        r.labels.add('multi-pair')
    return r
