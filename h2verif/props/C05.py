"""C05 Automatic window management never deadlocks and never over-credits."""
import itertools

from .. import inflow
from ..choose import Chooser
from ..runner import Result
from ..drive import h2
import h2.windows

ID = 'C05'
LEVEL = 'exploration'
ENGINE = 'E2 solo'
TECHNIQUE = ('property-based testing: generated receive/acknowledge histories (connection level and '
             'WindowManager level) vs. credit/deadlock invariants')
RULE = ('connection level: histories of received DATA on up to 8 streams, acknowledgements of the reported '
        'flow_controlled_length in drawn portions and order, local INITIAL_WINDOW_SIZE changes with delayed '
        'ACK, resets and DATA on closed streams, final acknowledgement of everything outstanding; unit level: '
        'WindowManager with boundary-dense maxima and consume/acknowledge sequences driven the way the '
        'connection drives it; non-trivial = some window reached 0, or a maximum changed while bytes were '
        'outstanding; distinct by concrete trace')
ASSUMPTIONS = ['the unit-level part calls h2.windows.WindowManager with the call pattern used by h2.stream']
TIERS = {'quick': {'cases': 6000, 'size': 400},
         'thorough': {'cases': 1200000, 'size': 600}}

MAXIMA = [0, 1, 2, 3, 4, 5, 7, 8, 1023, 1024, 1025, 4095, 4096, 4097, 65535, 2**31 - 1]


def unit_case(ch, r):
    mx = ch.pick(MAXIMA) if ch.chance(200) else ch.int(0, 2**31 - 1)
    wm = h2.windows.WindowManager(mx)
    win = mx          # model: advertised window
    cur_max = mx
    recv = acked = credited = 0
    zero = False
    changed = False
    r.step('unit', 'max', mx)
    for i in range(ch.int(1, 30)):
        op = ch.weighted([(5, 'consume'), (6, 'ack')])
        if op == 'consume':
            if win <= 0:
                continue
            n = ch.weighted([(3, win), (3, ch.int(1, win)), (2, 1)])
            wm.window_consumed(n)
            win -= n
            recv += n
            r.step('consume', n)
        elif op == 'ack':
            out = recv - acked
            if out <= 0:
                continue
            n = ch.weighted([(3, out), (3, ch.int(1, out)), (3, 1)])
            inc = wm.process_bytes(n) or 0
            acked += n
            credited += inc
            win += inc
            r.step('ack', n, 'increment', inc)
        else:
            new = ch.pick(MAXIMA[:-1])
            delta = new - cur_max
            if win + delta > 2**31 - 1:
                continue
            # the call pattern of H2Stream._inbound_flow_control_change_from_settings
            new_max = wm.max_window_size + delta
            wm.window_opened(delta)
            wm.max_window_size = new_max
            if recv != acked:
                changed = True
            win += delta
            cur_max = new
            r.step('resize', new)
        if wm.current_window_size != win:
            r.violate('C05:unit:window-differs-from-advertised', 'library %d model %d' % (wm.current_window_size, win))
            return
        if credited > acked:
            r.violate('C05:unit:over-credit', 'credited %d acked %d' % (credited, acked))
        if win > cur_max:
            r.violate('C05:unit:window-above-maximum', '%d > %d' % (win, cur_max))
        if win > 2**31 - 1:
            r.violate('C05:unit:window-above-2^31-1', '')
        if win == 0:
            zero = True
        if recv == acked and cur_max > 0 and win <= 0:
            r.violate('C05:unit:deadlock', 'max %d window %d after everything was acknowledged' % (cur_max, win))
        if r.violations:
            return
    out = recv - acked
    if out > 0:
        inc = wm.process_bytes(out) or 0
        win += inc
        credited += inc
        acked += out
        r.step('final-ack', out, 'increment', inc)
        if credited > acked:
            r.violate('C05:unit:over-credit', 'credited %d acked %d' % (credited, acked))
        if cur_max > 0 and win <= 0:
            r.violate('C05:unit:deadlock', 'max %d window %d after everything was acknowledged' % (cur_max, win))
        if win > cur_max:
            r.violate('C05:unit:window-above-maximum', '%d > %d' % (win, cur_max))
    r.nontrivial = zero or changed
    r.labels.add('unit')
    if zero:
        r.labels.add('window-reached-zero')
    if changed:
        r.labels.add('max-changed-while-outstanding')


def run_case(data):
    if data[:1] and data[0] >= 128:
        ch = Chooser(data[1:])
        r = Result()
        unit_case(ch, r)
        return r
    return inflow.run(data[1:], 'C05', manual_ops=False, overrun_ops=False)


def _f03():
    from .. import wire
    from ..solo import Solo, REQ
    s = Solo(False)
    s.start()
    s.feed(wire.headers(1, s.hblock(REQ)))
    s.feed(wire.data(1, b'x' * 16384))
    s.call('acknowledge_received_data', 16384, 1)
    s.call('update_settings', {wire.S_INITIAL_WINDOW_SIZE: 16384})
    s.feed(wire.settings(ack=True))
    o = s.call('remote_flow_control_window', 1)
    return ['C05:deadlock:stream-window-stays-zero'] if o.ok and o.value <= 0 else []


FINDINGS = {'F03-shrunk-window-stays-zero': _f03}
