"""C23 Priority information round-trips and never changes stream state."""
from .. import wire, model as M
from ..choose import Chooser
from ..runner import Result
from ..prog import World
from ..solo import Solo, REQ, RESP
from ..drive import h2

ID = 'C23'
LEVEL = 'exploration'
ENGINE = 'E2 solo'
TECHNIQUE = ('property-based testing: generated priority arguments / frames vs. expected frame fields and events; '
             'metamorphic replay of traffic histories with and without PRIORITY frames')
RULE = ('cases: (a) prioritize() and send_headers(priority_*) with weights in {-1,0,1,16,255,256,257,drawn}, '
        'dependencies including self, exclusive flags, on both roles; (b) PRIORITY frames and HEADERS+PRIORITY '
        'delivered to a server / client, fields compared with PriorityUpdated and the priority_updated link; '
        '(c) traffic histories (opens, data, ends, resets, window updates on several streams) with PRIORITY frames '
        'for idle / open / closed / never-used ids inserted between the steps, replayed without them: output bytes and '
        'all other events must be identical; non-trivial = an out-of-range value, or a PRIORITY frame on a non-open id '
        'followed by traffic on that id; distinct by trace')
ASSUMPTIONS = ['a received self-dependency may be a stream error or a connection error (PROTOCOL_ERROR)']
TIERS = {'quick': {'cases': 5000, 'size': 300},
         'thorough': {'cases': 1200000, 'size': 400}}
WEIGHTS = [-1, 0, 1, 16, 255, 256, 257]
TOP = 2**31 - 1


def local_case(ch, r):
    client = ch.chance(200)
    s = Solo(client)
    s.start()
    via_headers = ch.bool()
    sid = ch.pick([1, 3, 5, 101])
    w = ch.pick(WEIGHTS + [None, ch.int(1, 256), ch.int(-300, 600)])
    d = ch.pick([None, 0, sid, sid + 2, 1, 7, TOP])
    e = ch.pick([None, True, False])
    if not client:
        s.feed(wire.headers(1, s.hblock(REQ)))
        sid = 1
    valid = client and (w is None or 1 <= w <= 256) and d != sid
    if via_headers:
        if w is None and d is None and e is None:
            w = 16
            valid = client
        kw = {k: v for k, v in (('priority_weight', w), ('priority_depends_on', d), ('priority_exclusive', e))
              if v is not None}
        hdrs = list(REQ if client else RESP)
        later = ch.chance(64)
        extra = {}
        if later and client:
            # the priority arguments come with the trailers of a request that was opened without any: a HEADERS
            # frame may carry them wherever it stands in the message
            o0 = s.call('send_headers', sid, list(REQ))
            if not o0.ok:
                r.violate('C23:harness:open-refused', o0.brief())
                return
            hdrs, extra = [(b'x-trailer', b'v')], {'end_stream': True}
            r.labels.add('priority-on-trailers')
        elif later:
            # a server's response on a stream it promised itself: still a server
            o0 = s.call('push_stream', 1, 2, list(REQ))
            if not o0.ok:
                r.violate('C23:harness:push-refused', o0.brief())
                return
            sid = 2
            r.labels.add('priority-on-pushed-response')
        if ch.chance(80) and not later:
            # a header block at the frame-size limit: the five priority bytes share the first frame with it
            from hpack import Encoder
            from .C02 import sized_headers
            hdrs = sized_headers(ch, Encoder(), hdrs, ch.pick([1, 1, 2]) * 16384 + ch.int(-8, 8))
            r.labels.add('priority-on-frame-filling-block')
        o = s.call('send_headers', sid, hdrs, **dict(kw, **extra))
    else:
        later = False
        kw = {k: v for k, v in (('weight', w), ('depends_on', d), ('exclusive', e)) if v is not None}
        if valid and ch.chance(64):
            # the same signal several times in a row, and a DATA payload that happens to end with the very bytes of
            # the frame, all read in one data_to_send() at the end: every accepted call is one PRIORITY frame
            first = s.call('prioritize', sid, **kw)
            raw_frame = bytes(first.out)
            c = s.c
            n_calls = ch.int(2, 4)
            try:
                if ch.bool() and first.ok:
                    c.send_headers(101 if sid != 101 else 103, list(REQ))
                    c.send_data(101 if sid != 101 else 103, b'payload' + raw_frame)
                for _ in range(n_calls):
                    c.prioritize(sid, **kw)
                out = c.data_to_send()
            except Exception as exc:   # noqa: BLE001
                r.violate('C23:valid-priority-refused:%s' % type(exc).__name__, 'repeated prioritize: %r' % (kw,))
                return
            got_n = sum(1 for f in wire.parse_all(out)[0] if f.type == wire.PRIORITY and f.stream_id == sid)
            r.step('prioritize x%d without reading the output in between' % n_calls, sid, kw, 'frames', got_n)
            if first.ok and got_n != n_calls:
                r.violate('C23:repeated-prioritize-frames-missing', '%d calls, %d PRIORITY frames' % (n_calls, got_n))
            r.labels.add('repeated-prioritize-undrained')
        o = s.call('prioritize', sid, **kw)
    r.step('local', 'client' if client else 'server', 'send_headers' if via_headers else 'prioritize', sid, kw,
           o.brief())
    out_of_range = (w is not None and not 1 <= w <= 256) or d == sid
    r.nontrivial = out_of_range or not client
    if valid:
        if not o.ok:
            r.violate('C23:valid-priority-refused:%s' % o.exc_name, repr(kw))
            return
        fr = [f for f in o.frames if f.type == (wire.HEADERS if via_headers else wire.PRIORITY)]
        want = {'weight': 16 if w is None else w, 'depends_on': 0 if d is None else d,
                'exclusive': bool(e)}
        got = {k: fr[0].f.get(k) for k in want} if len(fr) == 1 else None
        if got != want or (via_headers and not fr[0].has(wire.F_PRIORITY)) or fr[0].stream_id != sid:
            r.violate('C23:emitted-priority-fields-wrong', 'want %r got %r' % (want, o.frames))
        if any(f.length > 16384 for f in o.frames) or s.out_problems:
            r.violate('C23:prioritised-request-not-deliverable', repr([(f.name, f.length) for f in o.frames]) +
                      repr(s.out_problems))
    else:
        if o.ok:
            r.violate('C23:invalid-priority-accepted:%s' % ('server' if not client else
                                                           ('self-dependency' if d == sid else 'weight')), repr(kw))
            return
        if not client and o.exc_name != 'RFC1122Error':
            r.violate('C23:server-priority-wrong-exception:%s' % o.exc_name, '')
        if client and not o.is_protocol_error():
            r.violate('C23:invalid-priority-wrong-exception:%s' % o.exc_name, repr(kw))
        if o.out:
            r.violate('C23:refused-priority-call-emitted', o.out.hex()[:40])
        if via_headers and client and not later:
            # the refused call must not have opened the stream
            q = s.call('get_next_available_stream_id')
            if q.ok and q.value != 1:
                r.violate('C23:refused-priority-call-used-the-stream-id', repr(q.value))


def wire_case(ch, r):
    client = ch.chance(64)
    s = Solo(client)
    s.start()
    with_headers = (not client) and ch.bool()
    sid = ch.pick([1, 3, 5, 2, 100, TOP, ch.int(1, TOP)])
    w = ch.int(1, 256)
    d = ch.pick([0, sid, 1, 3, TOP, ch.int(0, TOP)])
    e = ch.bool()
    if with_headers:
        sid = ch.pick([1, 3, 5])
        blk = s.hblock(REQ + ([(b'x-big', b'B' * ch.pick([17000, 40000]))] if ch.chance(48) else []))
        if ch.chance(96) and len(blk) > 3:
            # the priority fields travel in the HEADERS frame, the rest of the block in CONTINUATION frames
            cut = ch.int(1, min(len(blk) - 1, 16000))
            rest = blk[cut:]
            data_ = wire.headers(sid, blk[:cut], priority=(d, w, e), end_headers=False)
            while len(rest) > 16384:
                data_ += wire.continuation(sid, rest[:16384], end_headers=False)
                rest = rest[16384:]
            data_ += wire.continuation(sid, rest, end_headers=True)
            o = s.feed(data_)
            r.labels.add('priority-with-continuation')
        elif len(blk) <= 16000:
            o = s.feed(wire.headers(sid, blk, priority=(d, w, e)))
        else:
            return
    else:
        o = s.feed(wire.priority(sid, d, w, e))
    r.step('wire', 'client' if client else 'server', 'HEADERS+PRIORITY' if with_headers else 'PRIORITY', sid, d, w, e,
           o.brief())
    r.nontrivial = d == sid or with_headers
    if d == sid:
        rst = [f for f in o.frames if f.type == wire.RST_STREAM and f.stream_id == sid]
        if o.ok and not rst:
            r.violate('C23:received-self-dependency-accepted', repr(o.events))
        elif not o.ok and (not o.is_protocol_error() or o.code != wire.PROTOCOL_ERROR):
            r.violate('C23:received-self-dependency-wrong-error:%s' % o.brief(), '')
        return
    if not o.ok:
        r.violate('C23:priority-frame-rejected:%s' % o.exc_name, repr(o.exc))
        return
    pu = [e_ for e_ in o.events if e_[0] == 'PriorityUpdated']
    if pu != [('PriorityUpdated', sid, w, d, e)]:
        r.violate('C23:PriorityUpdated-fields-wrong', 'want %r got %r' % ((sid, w, d, e), pu))
    if with_headers:
        raw = o.raw_events
        req = [x for x in raw if isinstance(x, h2.events.RequestReceived)]
        pr = [x for x in raw if isinstance(x, h2.events.PriorityUpdated)]
        if len(req) != 1 or len(pr) != 1 or req[0].priority_updated is not pr[0] or \
                raw.index(pr[0]) < raw.index(req[0]):
            r.violate('C23:priority_updated-not-linked-to-later-event', repr(raw))
    else:
        if len(o.events) != 1 or o.frames:
            r.violate('C23:priority-frame-had-other-effects', '%r %r' % (o.events, o.frames))


def gen_ops(ch, w, r, ops, summary):
    """Generation pass of the metamorphic case; executes while drawing."""
    m = w.m
    prio_then_traffic = False
    prio_targets = set()
    for stepno in range(ch.int(6, 30)):
        if w.stop or r.violations:
            break
        usable = sorted(s for s in m.streams if s not in w.tainted)
        kind = ch.weighted([(5, 'open'), (4, 'data'), (2, 'end'), (2, 'rst'), (2, 'wu'), (9, 'prio'), (2, 'respond'),
                            (2, 'push')])
        op = None
        if kind == 'push':
            # pushes in either role: a PRIORITY frame earlier on (even before the first request) changes
            # nothing about them
            if w.client:
                parents = [s for s in usable if s % 2 == 1 and m.get(s).state in (M.OPEN, M.HC_LOCAL)]
                if parents:
                    op = ('recv-push', ch.pick(parents), w.next_peer_id())
            else:
                parents = [s for s in usable if s % 2 == 1 and m.get(s).state in (M.OPEN, M.HC_REMOTE)]
                if parents:
                    op = ('send-push', ch.pick(parents), w.next_local_id())
        elif kind == 'open':
            if w.client:
                op = ('open-local', w.next_local_id(), ch.chance(64))
            else:
                op = ('open-peer', w.next_peer_id(), ch.chance(64))
        elif kind == 'respond':
            if w.client:
                cands = [s for s in usable if m.get(s).local and m.get(s).can_recv() and not m.get(s).r_final]
                if cands:
                    op = ('recv-response', ch.pick(cands), ch.chance(64))
            else:
                cands = [s for s in usable if m.headers_position(m.get(s)) == 'response']
                if cands:
                    op = ('send-response', ch.pick(cands), ch.chance(64))
        elif kind == 'data':
            cands = [s for s in usable if m.get(s).can_recv() and m.get(s).r_final and not m.get(s).r_trailers]
            if cands:
                op = ('recv-data', ch.pick(cands), ch.chance(64), ch.int(0, 50))
        elif kind == 'end':
            cands = [s for s in usable if m.get(s).can_send() and m.get(s).s_final]
            if cands:
                op = ('local-end', ch.pick(cands))
        elif kind == 'rst':
            cands = [s for s in usable if m.get(s).live()]
            if cands:
                op = (ch.pick(['local-rst', 'peer-rst']), ch.pick(cands))
        elif kind == 'wu':
            cands = [s for s in usable if m.get(s).live()]
            op = ('recv-wu', ch.pick(cands + [0]) if cands else 0, ch.int(1, 1000))
        else:
            sid = ch.pick([1, 2, 3, 5, 7, 100, w.next_peer_id(), w.next_local_id(), w.next_peer_id() + 2,
                           max(1, m.hi_peer), TOP])
            sid = min(sid, TOP)
            dep = ch.pick([0, 1, 3, 5, 99])
            if dep == sid:
                dep = 0
            op = ('prio', sid, dep, ch.int(1, 256), ch.bool())
            st = m.get(sid)
            if st is None or st.state != M.OPEN:
                prio_targets.add(sid)
        if op is None:
            continue
        if op[0] != 'prio' and len(op) > 1 and op[1] in prio_targets:
            prio_then_traffic = True
        summ = apply_op(w, op)
        ops.append(op)
        if summ is not None:
            summary.append(summ)
    return prio_then_traffic


def apply_op(w, op):
    kind = op[0]
    if kind == 'prio':
        w.recv_priority(op[1], op[2], op[3], op[4])
        return None
    if kind == 'open-local':
        res, o = w.send_headers(op[1], 'final', op[2])
    elif kind == 'open-peer':
        res, o = w.recv_headers(op[1], 'final', op[2])
    elif kind == 'recv-response':
        res, o = w.recv_headers(op[1], 'final', op[2])
    elif kind == 'send-response':
        res, o = w.send_headers(op[1], 'final', op[2])
    elif kind == 'recv-data':
        res, o = w.recv_data(op[1], op[2], op[3])
    elif kind == 'local-end':
        res, o = w.end_stream(op[1])
    elif kind == 'local-rst':
        res, o = w.reset(op[1])
    elif kind == 'peer-rst':
        res, o = w.recv_rst(op[1])
    elif kind == 'recv-push':
        res, o = w.recv_push(op[1], op[2])
    elif kind == 'send-push':
        res, o = w.push(op[1], op[2])
    else:
        if op[1] == 0:
            o = w.s.feed(wire.window_update(0, op[2]))
            res = 'ok' if o.ok else 'stop'
            if not o.ok:
                w.stop = True
        else:
            res, o = w.recv_window_update(op[1], op[2])
    wins = []
    for sid, st in sorted(w.m.streams.items()):
        if st.state in (M.OPEN, M.HC_LOCAL, M.HC_REMOTE) and sid not in w.tainted:
            a = w.s.call('local_flow_control_window', sid)
            b = w.s.call('remote_flow_control_window', sid)
            wins.append((sid, a.value if a.ok else a.exc_name, b.value if b.ok else b.exc_name))
    return (kind, res, o.brief(), [e for e in o.events if e[0] != 'PriorityUpdated'], bytes(o.out), wins)


def metamorphic_case(ch, r):
    client = ch.bool()
    w = World(client, r, 'C23')
    r.step('metamorphic', 'client' if client else 'server')
    ops, first = [], []
    prio_then_traffic = gen_ops(ch, w, r, ops, first)
    if r.violations or not any(op[0] == 'prio' for op in ops):
        r.nontrivial = False
        return
    r2 = Result()
    w2 = World(client, r2, 'C23')
    second = []
    for op in ops:
        if w2.stop:
            break
        if op[0] == 'prio':
            continue
        summ = apply_op(w2, op)
        if summ is not None:
            second.append(summ)
    r.evals += 1
    if first != second:
        i = next((i for i, (x, y) in enumerate(zip(first, second)) if x != y), min(len(first), len(second)))
        r.violate('C23:priority-frames-changed-behaviour', 'step %d: with PRIORITY %r, without %r' %
                  (i, first[i] if i < len(first) else None, second[i] if i < len(second) else None))
    r.nontrivial = prio_then_traffic
    r.labels.add('metamorphic')


def run_case(data):
    ch = Chooser(data)
    r = Result()
    mode = ch.weighted([(3, 'local'), (3, 'wire'), (6, 'metamorphic')])
    if mode == 'local':
        local_case(ch, r)
    elif mode == 'wire':
        wire_case(ch, r)
    else:
        metamorphic_case(ch, r)
    r.labels.add(mode)
    return r
