"""Engine E2: one endpoint under test, the peer is the harness.

Frames are built with wire.py / hpackmirror.py, everything the endpoint emits
is parsed by wire.py and every header block is decoded on the mirror at once,
so the mirror's dynamic table follows the endpoint's encoder.
"""
from . import wire
from .drive import Endpoint
from .hpackmirror import Mirror

DEFAULT_LOCAL = {1: 4096, 2: None, 3: 100, 4: 65535, 5: 16384, 6: 65536, 8: 0}


class Solo:
    def __init__(self, client, **cfg):
        self.client = client
        self.ep = Endpoint(client, **cfg)
        self.c = self.ep.c
        self.m = Mirror()
        self.rest = b''            # unparsed tail of the output
        self._blk = None          # (first frame, bytearray) of an unfinished emitted header block
        self.out_frames = []       # every parsed frame ever emitted
        self.out_problems = []     # framing problems seen in the output
        self.preface_seen = not client
        self.peer_max_frame = 16384   # what the harness announced (limits what the endpoint may emit)

    # -- output handling -------------------------------------------------
    def _parse(self, o):
        data = self.rest + o.out
        if not self.preface_seen:
            if len(data) < len(wire.PREFACE):
                if data and not wire.PREFACE.startswith(data):
                    self.out_problems.append('bad-preface')
                self.rest = data
                o.frames = []
                return
            if not data.startswith(wire.PREFACE):
                self.out_problems.append('bad-preface')
            else:
                data = data[len(wire.PREFACE):]
            self.preface_seen = True
        frames, self.rest = wire.parse_all(data)
        for fr in frames:
            if fr.problems:
                self.out_problems.append('%s:%s' % (fr.name, ','.join(fr.problems)))
            if fr.length > self.peer_max_frame:
                self.out_problems.append('frame-exceeds-peer-MAX_FRAME_SIZE:%s:%d>%d' %
                                         (fr.name, fr.length, self.peer_max_frame))
            if self._blk is not None:
                first, buf = self._blk
                if fr.type != wire.CONTINUATION or fr.stream_id != first.stream_id:
                    self.out_problems.append('header-block-interrupted-by:' + fr.name)
                    self._blk = None
                else:
                    buf += fr.f['block']
                    if fr.has(wire.F_END_HEADERS):
                        self._finish_block(first, buf)
                    continue
            if fr.type in (wire.HEADERS, wire.PUSH_PROMISE) and 'block' in fr.f:
                if fr.has(wire.F_END_HEADERS):
                    self._finish_block(fr, bytearray(fr.f['block']))
                else:
                    self._blk = (fr, bytearray(fr.f['block']))
            elif fr.type == wire.CONTINUATION:
                self.out_problems.append('naked-continuation')
        self.out_frames.extend(frames)
        o.frames = frames

    def _finish_block(self, first, buf):
        self._blk = None
        first.f['full_block_len'] = len(buf)
        try:
            first.f['headers'] = self.m.decode(bytes(buf))
        except Exception as e:   # noqa: BLE001 - any decode failure is reported to the oracle
            first.f['headers'] = None
            first.f['decode_error'] = type(e).__name__
            self.out_problems.append('undecodable-header-block:' + type(e).__name__)

    def call(self, name, *a, **k):
        o = self.ep.call(name, *a, **k)
        self._parse(o)
        return o

    def feed(self, data):
        o = self.ep.recv(data)
        if o.ok:
            self._track_peer_frame_size(data)
        self._parse(o)
        return o

    def _track_peer_frame_size(self, data):
        """A MAX_FRAME_SIZE the harness has just announced (in whole, well-formed SETTINGS frames that the
        endpoint accepted) binds every frame emitted from now on."""
        data = bytes(data)
        if data.startswith(wire.PREFACE):
            data = data[len(wire.PREFACE):]
        try:
            frames, _ = wire.parse_all(data)
        except Exception:   # noqa: BLE001 - input that is not a frame sequence announces nothing
            return
        for fr in frames:
            if fr.type == wire.SETTINGS and not fr.problems and not fr.f.get('ack') and fr.stream_id == 0:
                self.note_peer_settings([p for p in fr.f.get('settings', []) if p[0] == wire.S_MAX_FRAME_SIZE])

    # -- handshake -------------------------------------------------------
    def start(self, peer_settings=(), ack=True):
        """initiate_connection, peer preface + SETTINGS, ACK of ours."""
        o1 = self.call('initiate_connection')
        data = b'' if self.client else wire.PREFACE
        data += wire.settings(list(peer_settings))
        self.note_peer_settings(peer_settings)
        if ack:
            data += wire.settings(ack=True)
        o2 = self.feed(data)
        return o1, o2

    def note_peer_settings(self, pairs):
        for k, v in pairs:
            if k == wire.S_HEADER_TABLE_SIZE:
                self.m.dec.max_allowed_table_size = v
            elif k == wire.S_MAX_FRAME_SIZE and 16384 <= v <= 16777215:
                self.peer_max_frame = v

    # -- helpers for building inbound header blocks ------------------------
    def hblock(self, headers):
        return self.m.encode(headers)


REQ = [(b':method', b'GET'), (b':scheme', b'https'), (b':authority', b'example.com'),
       (b':path', b'/')]
RESP = [(b':status', b'200'), (b'server', b'x')]
