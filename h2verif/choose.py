"""Case representation: every generated case is a byte string produced by the
generation library (Hypothesis ``st.binary`` or libFuzzer via atheris).  A
``Chooser`` turns those bytes into structured decisions.  Reading past the end
yields zeros, so a prefix of a case is a valid (simpler) case and the value 0
always selects the first / smallest alternative: that is what makes plain
delta-debugging over the bytes an effective shrinker.  No other source of
randomness is used anywhere in a property.
"""


class Chooser:
    __slots__ = ('d', 'i', 'n')

    def __init__(self, data):
        self.d = bytes(data)
        self.i = 0
        self.n = len(self.d)

    @property
    def exhausted(self):
        return self.i >= self.n

    def u8(self):
        i = self.i
        self.i = i + 1
        return self.d[i] if i < self.n else 0

    def u16(self):
        return (self.u8() << 8) | self.u8()

    def u32(self):
        return (self.u16() << 16) | self.u16()

    def int(self, lo, hi):
        """Uniform-ish integer in [lo, hi]."""
        span = hi - lo + 1
        if span <= 1:
            return lo
        if span <= 256:
            v = self.u8()
        elif span <= 65536:
            v = self.u16()
        elif span <= 1 << 32:
            v = self.u32()
        else:
            v = (self.u32() << 32) | self.u32()
        return lo + v % span

    def chance(self, num, den=256):
        """True with probability ~num/den; False for a zero byte."""
        return self.u8() >= 256 - (num * 256) // den

    def bool(self):
        return bool(self.u8() & 1)

    def pick(self, seq):
        return seq[self.int(0, len(seq) - 1)]

    def weighted(self, pairs):
        """pairs: [(weight, item), ...]; zero byte selects the first."""
        total = sum(w for w, _ in pairs)
        v = self.int(0, total - 1)
        for w, item in pairs:
            if v < w:
                return item
            v -= w
        return pairs[-1][1]

    def bytes(self, n):
        out = self.d[self.i:self.i + n]
        self.i += n
        if len(out) < n:
            out += b'\0' * (n - len(out))
        return out

    def small(self, hi):
        """Integer in [0, hi] biased towards small values and boundaries."""
        v = self.u8()
        if v < 128:
            return min(hi, v % 8)
        if v < 200:
            return min(hi, self.u8())
        if v < 230:
            return hi - min(hi, self.u8() % 4)
        return self.int(0, hi)

    def boundary(self, points, lo, hi):
        """Value near one of ``points`` (offset -2..+2) or uniform in [lo, hi]."""
        v = self.u8()
        if v < 208 and points:
            p = points[v % len(points)]
            x = p + (self.u8() % 5) - 2
            return max(lo, min(hi, x))
        return self.int(lo, hi)
