"""Engine E1: a client and a server H2Connection joined by two FIFO byte pipes.

The harness owns the schedule: a program is a list of concrete steps, either an
API call on one endpoint or the delivery of the next k bytes of one direction.
``RawPair`` executes concrete steps and nothing else (it is what the twin replay
and the determinism check use).  ``Pair`` generates a program from the case
bytes while executing it, with one RFC reference model (model.py) per endpoint
and the *ledger* oracle:

* every successful call appends, to the ledger of its direction, the events the
  peer must report for it (computed from the call's ARGUMENTS, never from the
  bytes the library produced) together with the byte offset at which the call's
  last frame ends in that direction;
* frames an endpoint emits on its own inside receive_data (SETTINGS ACK, PING
  ACK, WINDOW_UPDATE, RST_STREAM) and the WINDOW_UPDATE frames of
  acknowledge_received_data are read from its output with the independent codec
  wire.py and entered the same way;
* after every delivery the receiver's events must equal, in order, the events
  of exactly those ledger entries that are now completely delivered, minus the
  entries the receiver itself made moot (it had reset that stream or refused the
  push).  No receive_data may raise.

Generation is model-driven: a call is generated if the model permits it, or if
the model predicts a refusal of the kind that is raised before any state machine
is consulted (prog.INERT_REFUSALS).  Refusals by a state machine on a live
object are known finding K03 and are excluded by construction (counted).
"""
import collections

from . import wire, model as M, headers as H
from .drive import Endpoint
from .prog import INERT_REFUSALS

SETTING_VALUES = {
    1: [0, 100, 4096, 8192],
    2: [0, 1],
    3: [0, 1, 2, 100],
    4: [0, 1, 100, 65535, 100000, 2 ** 20],
    5: [16384, 20000, 2 ** 24 - 1],
    6: [8192, 65536],
    8: [1],
}
BAD_SETTINGS = [(2, 2), (4, 2 ** 31), (5, 16383), (5, 2 ** 24), (6, -1), (8, 2)]
EVENT_FOR_KIND = {'request': 'RequestReceived', 'response': 'ResponseReceived',
                  'informational': 'InformationalResponseReceived', 'trailers': 'TrailersReceived'}


def strip_never(ev):
    """Normalised event with the never-indexed markers of header lists dropped (C14 decides those)."""
    if ev and ev[0] in ('RequestReceived', 'ResponseReceived', 'TrailersReceived',
                        'InformationalResponseReceived'):
        return (ev[0], ev[1], [(n, v) for n, v, _ in ev[2]]) + tuple(ev[3:])
    if ev and ev[0] == 'PushedStreamReceived':
        return (ev[0], ev[1], ev[2], [(n, v) for n, v, _ in ev[3]])
    return ev


class RawPair:
    """Two endpoints and two pipes; executes concrete steps."""

    def __init__(self, upgrade_settings=None, cfg_c=None, cfg_s=None):
        self.ep = {'c': Endpoint(True, **(cfg_c or {})), 's': Endpoint(False, **(cfg_s or {}))}
        self.pipe = {'c': bytearray(), 's': bytearray()}     # bytes emitted by that side, not yet delivered
        self.sent = {'c': 0, 's': 0}
        self.delivered = {'c': 0, 's': 0}

    @staticmethod
    def other(side):
        return 's' if side == 'c' else 'c'

    def call(self, side, name, args, kwargs):
        o = self.ep[side].call(name, *args, **kwargs)
        self.pipe[side] += o.out
        self.sent[side] += len(o.out)
        return o

    def deliver(self, frm, k):
        """Deliver the next k bytes emitted by ``frm`` to its peer."""
        chunk = bytes(self.pipe[frm][:k])
        del self.pipe[frm][:k]
        to = self.other(frm)
        o = self.ep[to].recv(chunk)
        self.delivered[frm] += len(chunk)
        self.pipe[to] += o.out
        self.sent[to] += len(o.out)
        return o, len(chunk)

    def exec(self, step):
        if step[0] == 'call':
            return self.call(step[1], step[2], step[3], step[4])
        return self.deliver(step[1], step[2])[0]


def outcome_sig(o):
    return (o.ok, o.exc_name, o.code, bytes(o.out), [repr(e) for e in o.events],
            repr(o.value) if isinstance(o.value, (int, bytes, str, type(None))) else type(o.value).__name__)


class Entry:
    __slots__ = ('end', 'kind', 'sid', 'events', 'info')

    def __init__(self, end, kind, sid, events, info=None):
        self.end = end
        self.kind = kind
        self.sid = sid
        self.events = events
        self.info = info


class Pair(RawPair):
    def __init__(self, r, pid, **kw):
        super().__init__(**kw)
        self.r = r
        self.pid = pid
        self.m = {'c': M.Conn(True), 's': M.Conn(False)}
        self.ledger = {'c': collections.deque(), 's': collections.deque()}
        self.steps = []            # concrete program
        self.sigs = []             # outcome signature of every step
        self.outstanding = {'c': 0, 's': 0}    # update_settings calls whose ACK has not come back yet
        self.unacked = {'c': collections.Counter(), 's': collections.Counter()}   # received, not acknowledged
        self.raised = []           # indices of call steps that raised
        self.stop = False
        self.self_closed = set()   # sides that called close_connection
        self.announced = {}        # side -> {setting: value} as last announced (and seen by the peer in order)
        self.acked = {}            # side -> {setting: value} local values in force
        self.pending_settings = {'c': collections.deque(), 's': collections.deque()}
        self.stats = collections.Counter()
        self.max_alive = 0
        # HEADER_TABLE_SIZE announced by that side: 0 settled, 1 in flight, 2 received by the peer, whose
        # encoder has not emitted a header block since (a further change then has to be coalesced, F36)
        self.hts = {'c': 0, 's': 0}
        self.max_data = 70000
        self.cl = {}               # (side, sid) -> bytes of the declared content-length still to be sent
        self.head = set()          # client-opened streams whose request method is HEAD
        self.padded = {'c': set(), 's': set()}    # streams on which that side has sent DATA with padding
        self.norm_in = {'c': True, 's': True}    # normalize_inbound_headers of that side (cookie joining)

    # ------------------------------------------------------------------
    def violate(self, key, detail=''):
        self.r.violate('%s:%s' % (self.pid, key), detail)
        self.stop = True

    def handshake(self, ch=None):
        """Preface and initial SETTINGS in both directions, acknowledged; delivered whole, or in drawn chunks."""
        self.hs_ch = ch
        for side in 'cs':
            o = RawPair.call(self, side, 'initiate_connection', (), {})
            self.steps.append(('call', side, 'initiate_connection', (), {}))
            self.sigs.append(outcome_sig(o))
            if not o.ok:
                self.violate('handshake-call-raised:' + o.exc_name)
                return
        self.flush_raw()
        self.after_handshake()

    def after_handshake(self):
        for side in 'cs':
            vals = {int(k): v for k, v in dict(self.ep[side].c.local_settings).items()}
            self.announced[side] = dict(vals)
            self.acked[side] = dict(vals)
        for side in 'cs':
            m = self.m[side]
            peer = self.announced[self.other(side)]
            m.peer_enable_push = peer.get(2, 1) if side == 's' else 0
            m.local_enable_push = self.acked[side].get(2, 1) if side == 'c' else 0
            m.peer_max_streams = peer.get(3)
            m.local_max_streams = self.acked[side].get(3, 100)

    def flush_raw(self):
        """Deliver everything, unchecked (used for the handshake only)."""
        ch = getattr(self, 'hs_ch', None)
        chunked = ch is not None and ch.chance(96)
        if chunked:
            self.r.labels.add('handshake-delivered-in-chunks')
        for _ in range(400):
            if not self.pipe['c'] and not self.pipe['s']:
                return
            for frm in 'cs':
                if self.pipe[frm]:
                    n = len(self.pipe[frm])
                    if chunked:
                        n = min(n, ch.pick([1, 3, 9, 10, 24, 25, 33, 200]))
                    o, _ = RawPair.deliver(self, frm, n)
                    self.steps.append(('deliver', frm, n))
                    self.sigs.append(outcome_sig(o))
                    if not o.ok:
                        self.violate('handshake-receive-raised:%s' % o.exc_name, repr(o.exc))
                        return

    # ------------------------------------------------------------------
    # ledger helpers
    def add(self, side, kind, sid, events, info=None, end=None):
        self.ledger[side].append(Entry(self.sent[side] if end is None else end, kind, sid, events, info))

    def add_auto_frames(self, side, out, base, allowed):
        """Ledger entries for frames read from ``out`` (emitted by ``side`` starting at offset ``base``)."""
        frames, rest = wire.parse_all(out)
        if rest:
            self.violate('output-not-whole-frames:%s' % side)
            return
        off = base
        for fr in frames:
            off += 9 + fr.length
            if fr.name not in allowed:
                self.violate('unexpected-frame-emitted:%s' % fr.name, repr(fr))
                return
            if fr.type == wire.WINDOW_UPDATE:
                self.add(side, 'wu', fr.stream_id or None, [('WindowUpdated', fr.stream_id, fr.f.get('inc'))],
                         end=off)
            elif fr.type == wire.RST_STREAM:
                self.add(side, 'auto-rst', fr.stream_id,
                         [('StreamReset', fr.stream_id, fr.f.get('code'), True)], end=off)
                st = self.m[side].get(fr.stream_id)
                if st is not None and st.state != M.CLOSED:
                    st.close('send-rst')
            elif fr.type == wire.PING:
                self.add(side, 'ping-ack', None, [('PingAckReceived', fr.f.get('data'))], end=off)
            elif fr.type == wire.SETTINGS:
                self.add(side, 'settings-ack', None, None, end=off)

    # ------------------------------------------------------------------
    def do_call(self, side, name, args, kwargs, verdict, what, on_ok):
        """Execute a generated call.  Returns the outcome."""
        idx = len(self.steps)
        self.steps.append(('call', side, name, args, kwargs))
        base = self.sent[side]
        o = RawPair.call(self, side, name, args, kwargs)
        self.sigs.append(outcome_sig(o))
        self.r.step('call', side, name, list(args), kwargs, 'model', verdict, what, 'library', o.brief())
        self.stats['calls'] += 1
        if o.ok:
            self.stats['ok-calls'] += 1
            if name in ('send_headers', 'push_stream') and self.hts[self.other(side)] == 2:
                self.hts[self.other(side)] = 0
            if self.raised:
                self.stats['ok-after-raise'] += 1
            on_ok(o, base)
        else:
            self.raised.append(idx)
            self.stats['raised:' + o.exc_name] += 1
            if not o.is_h2error() and not isinstance(o.exc, (ValueError, TypeError)):
                self.violate('call-raised-undocumented:%s:%s' % (name, o.exc_name), repr(o.exc))
            if o.out:
                self.violate('raised-call-emitted:%s' % name, o.out.hex()[:80])
        return o

    def do_deliver(self, frm, k):
        to = self.other(frm)
        before = self.sent[to]
        self.steps.append(('deliver', frm, k))
        o, n = RawPair.deliver(self, frm, k)
        self.sigs.append(outcome_sig(o))
        self.stats['deliveries'] += 1
        self.r.step('deliver', frm + '->' + to, n, o.brief(), o.events)
        if to in self.self_closed:
            return o
        if not o.ok:
            self.violate('receive_data-raised:%s:code=%s' % (o.exc_name, o.code), repr(o.exc))
            return o
        # what the receiver must have reported
        want = []
        led = self.ledger[frm]
        rm = self.m[to]
        while led and led[0].end <= self.delivered[frm]:
            e = led.popleft()
            want.extend(self.consume(to, rm, e))
        got = [strip_never(e) for e in o.events]
        self.compare(to, want, got)
        if o.out and not self.stop:
            self.add_auto_frames(to, o.out, before, ('SETTINGS', 'PING', 'WINDOW_UPDATE', 'RST_STREAM'))
        return o

    def compare(self, to, want, got):
        flat = []
        for grp in want:
            flat.append(grp)
        i = 0
        for grp in flat:
            part = got[i:i + len(grp)]
            if len(part) < len(grp) or part[0] != grp[0] or \
                    sorted(map(repr, part[1:])) != sorted(map(repr, grp[1:])):
                exp = grp[0][0]
                act = part[0][0] if part else 'nothing'
                field = ''
                if part and part[0][0] == grp[0][0]:
                    field = ':fields'
                elif part and len(part) == len(grp) and part[0] == grp[0]:
                    field = ':related-events'
                self.violate('events-differ:want=%s:got=%s%s' % (exp, act, field),
                             'want %r got %r' % (grp, part))
                return
            i += len(grp)
        if i < len(got):
            self.violate('unexpected-event:%s' % got[i][0], repr(got[i:]))

    def consume(self, to, rm, e):
        """Events the receiver must report for ledger entry e, as a list of groups; advances rm."""
        k = e.kind
        st = rm.get(e.sid) if e.sid is not None else None
        reset_here = st is not None and st.state == M.CLOSED and st.closed_by == 'send-rst'
        if k in ('ping', 'ping-ack', 'prio', 'altsvc'):
            return [e.events]
        if k == 'goaway':
            rm.closed = 'recv-goaway'
            return [e.events]
        if k == 'settings':
            peer = self.other(to)
            changes = e.info
            ev = ('RemoteSettingsChanged',
                  sorted((key, self.announced[peer].get(key), val) for key, val in changes.items()))
            self.announced[peer].update(changes)
            if 2 in changes and to == 's':
                rm.peer_enable_push = changes[2]
            if 3 in changes:
                rm.peer_max_streams = changes[3]
            self.pending_settings[peer].append(changes)
            if 1 in changes:
                self.hts[peer] = 2
            return [[ev]]
        if k == 'settings-ack':
            if not self.pending_settings[to]:
                return [[('SettingsAcknowledged', 'none-outstanding')]]
            changes = self.pending_settings[to].popleft()
            self.outstanding[to] -= 1
            ev = ('SettingsAcknowledged', sorted((key, self.acked[to].get(key), val) for key, val in changes.items()))
            self.acked[to].update(changes)
            if 2 in changes and to == 'c':
                rm.local_enable_push = changes[2]
            if 3 in changes:
                rm.local_max_streams = changes[3]
            return [[ev]]
        if k == 'wu':
            if e.sid is None:
                return [e.events]
            if st is None or st.state == M.CLOSED:
                self.stats['moot-entries'] += 1
                return []
            return [e.events]
        if k in ('rst', 'auto-rst'):
            if st is None or st.state == M.CLOSED:
                self.stats['moot-entries'] += 1
                return []
            st.close('recv-rst')
            return [e.events]
        if k == 'push':
            parent, promised = e.sid, e.info
            if reset_here:
                self.stats['moot-entries'] += 1
                self.stats['moot-push'] += 1
                pst = rm.streams[promised] = M.Stream(promised, local=False, pushed=True)
                pst.close('send-rst')
                rm.hi_peer = max(rm.hi_peer, promised)
                return []
            rm.apply_recv_push(parent, promised)
            return [e.events]
        if k == 'headers':
            if reset_here:
                self.stats['moot-entries'] += 1
                return []
            what, es = e.info
            rm.apply_recv_headers(e.sid, what, es)
            return [e.events]
        if k == 'data':
            if reset_here:
                self.stats['moot-entries'] += 1
                return []
            self.unacked[to][e.sid] += e.events[0][3]
            if e.info and st is not None:
                st.recv_end()
            return [e.events]
        raise AssertionError('unknown ledger entry kind %r' % k)

    # ------------------------------------------------------------------
    def alive(self):
        n = 0
        for sid, st in self.m['c'].streams.items():
            sst = self.m['s'].get(sid)
            if st.live() and (sst is None or sst.live()):
                n += 1
        return n

    def finish(self):
        """Deliver everything that is still in flight, whole buffers, alternating."""
        for _ in range(64):
            if self.stop or (not self.pipe['c'] and not self.pipe['s']):
                break
            progressed = False
            for frm in 'cs':
                if self.pipe[frm] and not self.stop and self.other(frm) not in self.self_closed:
                    self.do_deliver(frm, len(self.pipe[frm]))
                    progressed = True
            if not progressed:
                break
        else:
            self.violate('no-quiescence-after-64-rounds')
        if not self.stop:
            for side in 'cs':
                if self.ledger[side] and self.other(side) not in self.self_closed:
                    self.violate('ledger-entry-never-delivered:%s' % self.ledger[side][0].kind)


# ---------------------------------------------------------------------------
# generation

def with_method(hdrs, exp, method):
    """Replace the value of the :method field in the call's list (keeping the tuple class and the text / bytes type
    the generator chose) and in the expectation."""
    out = []
    for h in hdrs:
        n, v = h[0], h[1]
        nb = n.encode('utf-8') if isinstance(n, str) else bytes(n)
        if nb.strip().lower() == b':method':
            nv = method.decode('ascii') if isinstance(v, str) else method
            h = type(h)(n, nv) if type(h) not in (tuple, list) else type(h)((n, nv))
        out.append(h)
    return out, [(n, method if n == b':method' else v) for n, v in exp]


def clean_fields(fs):
    """C01/C16 consistency: no 204/304 responses (their bodies are the receiver's to refuse); HEAD requests are made
    by with_method() on streams whose answer then carries no payload."""
    out = []
    for n, v in fs:
        if n == b':method' and v == b'HEAD':
            v = b'GET'
        if n == b':status' and v in (b'204', b'304'):
            v = b'200'
        out.append((n, v))
    return out


def big_ok(p, side):
    """May ``side`` send a header list of some 40 kB?  Only while the receiver's MAX_HEADER_LIST_SIZE is, and stays,
    at its 64 kB default."""
    other = p.other(side)
    return (p.max_data >= 70000 and p.announced[other].get(6, 65536) >= 65536 and
            p.acked[other].get(6, 65536) >= 65536 and not p.outstanding[other])


def with_field(hdrs, exp, field):
    """Insert an ordinary field right behind the pseudo-header fields (in front of any cookie field, which the
    receiver moves to the end) of the call's list and of the expectation."""
    def is_pseudo(n):
        n = n.strip() if hasattr(n, 'strip') else n
        return (n[:1] == b':') if isinstance(n, bytes) else (n[:1] == ':')
    i = 0
    while i < len(hdrs) and is_pseudo(hdrs[i][0]):
        i += 1
    j = 0
    while j < len(exp) and exp[j][0][:1] == b':':
        j += 1
    return hdrs[:i] + [field] + hdrs[i:], exp[:j] + [field] + exp[j:]


def with_content_length(hdrs, exp, length):
    """Insert a content-length field behind the pseudo-header fields of the call's list and of the expectation."""
    def is_pseudo(n):
        return (n[:1] == b':') if isinstance(n, bytes) else (n[:1] == ':')
    i = 0
    while i < len(hdrs) and is_pseudo(hdrs[i][0].strip() if hasattr(hdrs[i][0], 'strip') else hdrs[i][0]):
        i += 1
    j = 0
    while j < len(exp) and exp[j][0][:1] == b':':
        j += 1
    v = b'%d' % length
    return hdrs[:i] + [(b'content-length', v)] + hdrs[i:], exp[:j] + [(b'content-length', v)] + exp[j:]


def header_list(ch, kind, want_bad=False, norm_in=True):
    """-> (materialised list for the call, expected received [(n, v)] or None if the list is not conformant)."""
    hk = {'final-request': 'request', 'push': 'push', 'final-response': 'response', 'info': 'informational',
          'trailers': 'trailers'}[kind]
    if want_bad:
        fs, defects = H.gen_fields(ch, hk)
    else:
        fs, defects = clean_fields(H.skeleton(ch, hk)), []
    if defects:
        fs = clean_fields(fs)
    dressed = H.dress(ch, fs)
    # name and value of one tuple keep one Python type (mixing them is outside the documented input domain)
    inp = [(H.b(n), H.b(v), cls == 'NeverIndexedHeaderTuple') for n, v, cls in dressed]
    norm = H.normalize_outbound(inp)
    verdict, reasons = H.conformance([(n, v) for n, v, _ in norm], hk)
    types = {type(n) for n, v, _ in dressed if H.b(n).strip().lower() in (b':authority', b'host')}
    if verdict == H.DONTCARE or len(types) > 1:
        return None, None, 'dontcare'
    hdrs = H.materialize(dressed)
    if verdict != H.OK:
        return hdrs, None, 'bad'
    exp = [(n, v) for n, v, _ in H.expected_inbound(norm, norm_in)]
    return hdrs, exp, 'ok'


def gen_program(ch, p, nsteps, allow_close=True, allow_bad=True):
    """Generate and execute a program on Pair p."""
    r = p.r
    split_delivery = False
    for _ in range(nsteps):
        if p.stop:
            break
        p.max_alive = max(p.max_alive, p.alive())
        act = ch.weighted([(10, 'call'), (7, 'deliver')])
        if act == 'deliver':
            frm = ch.pick('cs')
            if not p.pipe[frm]:
                frm = p.other(frm)
            if not p.pipe[frm]:
                act = 'call'
            else:
                n = len(p.pipe[frm])
                bounds = wire.frame_boundaries(bytes(p.pipe[frm]))
                mode = ch.weighted([(6, 'all'), (4, 'boundary'), (4, 'mid'), (2, 'tiny')])
                if mode == 'all':
                    k = n
                elif mode == 'boundary' and bounds:
                    k = ch.pick(bounds)
                elif mode == 'tiny':
                    k = ch.int(1, min(n, 12))
                else:
                    k = ch.int(1, n)
                k = max(1, min(n, k))
                if k < n and k not in bounds:
                    split_delivery = True
                p.do_deliver(frm, k)
                continue
        side = ch.pick('cs')
        gen_call(ch, p, side, allow_close, allow_bad)
        if p.self_closed:
            # the library supports no graceful shutdown: the GOAWAY is delivered, nothing goes to the closed side
            break
    p.max_alive = max(p.max_alive, p.alive())
    p.finish()
    if split_delivery:
        r.labels.add('delivery-splits-a-frame')
    if p.stats['ok-after-raise']:
        r.labels.add('raising-call-then-successful-traffic')
    if p.max_alive >= 2:
        r.labels.add('two-streams-alive')
    if p.stats['moot-entries']:
        r.labels.add('frames-crossed-a-reset')
    if p.stats['moot-push']:
        r.labels.add('push-crossed-a-reset')
    for k, v in p.stats.items():
        if k.startswith('raised:'):
            r.labels.add(k)
        if k.startswith('op:'):
            r.labels.add(k)
    r.evals = max(1, len(p.steps))


def pick_sid(ch, p, side, pred=None, bad=False):
    m = p.m[side]
    if bad:
        hi = max(m.hi_local, m.hi_peer)
        return ch.pick([hi + 11, hi + 12, 2 ** 31 - 1])
    c = sorted(s for s, st in m.streams.items() if pred is None or pred(st))
    if not c:
        return None
    return ch.pick(c)


def gen_call(ch, p, side, allow_close, allow_bad):
    m = p.m[side]
    client = side == 'c'
    ops = [(6, 'open' if client else 'respond'), (8, 'data'), (3, 'end'), (2, 'trailers'), (3, 'rst'),
           (2, 'ping'), (2, 'wu'), (3, 'ack'), (2, 'settings'), (2, 'prio' if client else 'push'),
           (1, 'info' if not client else 'open'), (1, 'altsvc' if not client else 'data'),
           (3, 'bad'), (1, 'close')]
    # state-dependent bias: while a promised stream is still reserved, settings changes that must reach it
    # (INITIAL_WINDOW_SIZE, MAX_FRAME_SIZE) and its response become more likely
    reserved = [s_ for s_, st_ in p.m['s'].streams.items() if st_.state == M.RES_LOCAL]
    only_reserved = False
    forced_keys = None
    if reserved:
        ops += [(5, 'settings-reserved')] if client else [(5, 'respond-reserved')]
    op = ch.weighted(ops)
    if op == 'settings-reserved':
        op, forced_keys = 'settings', [4, 4, 5]
    if op == 'respond-reserved':
        op, only_reserved = 'respond', True
    if op == 'bad' and not allow_bad:
        op = 'data'
    if op == 'close' and not allow_close:
        op = 'ping'

    def note():
        p.stats['op:' + op] += 1

    if op == 'open':
        sid = m.hi_local + 2 if m.hi_local else 1
        if ch.chance(24):
            sid += 2 * ch.int(1, 3)
        es = ch.chance(90)
        hdrs, exp, q = header_list(ch, 'final-request', norm_in=p.norm_in[p.other(side)])
        if q != 'ok':
            return
        kw = {}
        prio = None
        if ch.chance(64):
            prio = (ch.pick([1, 256, 16, ch.int(1, 256), ch.int(1, 256)]), ch.pick([0, 1, 3, sid + 2]), ch.bool())
            kw = {'priority_weight': prio[0], 'priority_depends_on': prio[1], 'priority_exclusive': prio[2]}
        verdict, what = m.send_headers_verdict(sid, 'final', es)
        if verdict != M.PERMIT and what not in INERT_REFUSALS:
            p.r.excluded['state-machine-refusal-not-generated'] += 1
            return
        declared = None
        if not es and ch.chance(56):
            # a declared body length: the program then sends exactly that many payload bytes before END_STREAM
            declared = ch.pick([0, 1, 5, 100, 20000])
            hdrs, exp = with_content_length(hdrs, exp, declared)
        if ch.chance(14) and big_ok(p, side):
            # a block that needs CONTINUATION frames (with or without priority fields in front of it)
            hdrs, exp = with_field(hdrs, exp, (b'x-big', b'B' * ch.pick([16300, 17000, 40000])))
            p.stats['multi-frame-header-block'] += 1
        head = client and ch.chance(28)
        if head:
            # a HEAD request (with or without body and trailers): the answer may declare any content-length and
            # carries no payload; the client has to remember the method until the answer is complete
            hdrs, exp = with_method(hdrs, exp, b'HEAD')

        def ok(o, base):
            m.apply_send_headers(sid, what, es)
            if head:
                p.head.add(sid)
                p.stats['head-request'] += 1
            if declared is not None:
                p.cl[(side, sid)] = declared
                p.stats['content-length-declared'] += 1
            evs = [('RequestReceived', sid, exp, es, prio is not None)]
            if es:
                evs.append(('StreamEnded', sid))
            if prio:
                evs.append(('PriorityUpdated', sid, prio[0], prio[1], prio[2]))
            p.add(side, 'headers', sid, evs, ('request', es))
        note()
        p.do_call(side, 'send_headers', (sid, hdrs), dict(kw, end_stream=es), verdict, what, ok)
        return
    if op in ('respond', 'info', 'trailers'):
        kind = {'respond': 'final', 'info': 'info', 'trailers': 'trailers'}[op]
        es = ch.chance(70) if kind == 'final' else (kind == 'trailers')

        def fits(st):
            if st.state == M.CLOSED or st.state == M.IDLE:
                return False
            pos = m.headers_position(st)
            if kind == 'trailers':
                return pos == 'trailers'
            return pos == 'response'
        sid = pick_sid(ch, p, side, (lambda st: fits(st) and st.state == M.RES_LOCAL) if only_reserved else fits)
        if sid is None:
            return
        hk = {'final': 'final-response', 'info': 'info', 'trailers': 'trailers'}[kind]
        hdrs, exp, q = header_list(ch, hk, norm_in=p.norm_in[p.other(side)])
        if q != 'ok':
            return
        verdict, what = m.send_headers_verdict(sid, kind, es)
        if verdict == M.DONTCARE or (verdict != M.PERMIT and what not in INERT_REFUSALS):
            p.r.excluded['state-machine-refusal-or-dontcare-not-generated'] += 1
            return
        cls = {'final': 'ResponseReceived', 'info': 'InformationalResponseReceived',
               'trailers': 'TrailersReceived'}[kind]
        if kind == 'trailers' and p.cl.get((side, sid), 0) > 0:
            return       # trailers end the stream: the declared body has to be complete first
        declared = None
        to_head = not client and sid in p.head
        if kind == 'final' and not es and verdict == M.PERMIT and ch.chance(56):
            declared = ch.pick([0, 1, 5, 100, 20000])
            hdrs, exp = with_content_length(hdrs, exp, declared)
        elif kind == 'final' and es and verdict == M.PERMIT and to_head and ch.chance(160):
            # the answer to HEAD: the length the entity would have, END_STREAM on the header block
            declared = ch.pick([0, 5, 100, 1048576])
            hdrs, exp = with_content_length(hdrs, exp, declared)

        def ok(o, base):
            m.apply_send_headers(sid, what, es)
            if to_head and kind == 'final':
                # whatever is declared, no payload byte follows
                p.cl[(side, sid)] = 0
                p.stats['answer-to-head'] += 1
                if declared:
                    p.stats['answer-to-head-declares-length'] += 1
            elif declared is not None:
                p.cl[(side, sid)] = declared
                p.stats['content-length-declared'] += 1
            evs = [(cls, sid, exp, es, False)]
            if es:
                evs.append(('StreamEnded', sid))
            p.add(side, 'headers', sid, evs, (what, es))
        note()
        p.do_call(side, 'send_headers', (sid, hdrs), {'end_stream': es}, verdict, what, ok)
        return
    if op in ('data', 'end'):
        sid = pick_sid(ch, p, side, lambda st: st.can_send() and st.s_final and not st.s_trailers)
        if sid is None:
            return
        if op == 'end':
            verdict, what = m.send_data_verdict(sid, True)
            if verdict != M.PERMIT or p.cl.get((side, sid), 0) > 0:
                return

            def ok(o, base):
                m.get(sid).send_end()
                p.add(side, 'data', sid, [('DataReceived', sid, b'', 0, True), ('StreamEnded', sid)], True)
            note()
            p.do_call(side, 'end_stream', (sid,), {}, verdict, what, ok)
            return
        es = ch.chance(48)
        n = min(p.max_data, ch.weighted([(8, ch.int(0, 40)), (2, 16384), (1, 16385), (2, ch.int(1000, 70000)), (1, 65535),
                                         (4, -1), (1, -2)]))
        pad = ch.pick([None, None, None, 0, 1, 7, 255])
        again = sorted(s for s in p.padded[side] if m.get(s) is not None and m.get(s).can_send() and
                       m.get(s).s_final and not m.get(s).s_trailers)
        if again and ch.chance(72):
            # a stream that has carried padded DATA before is filled to the brim: whatever the sender forgot to
            # charge for that padding now shows
            sid, n = ch.pick(again), -1
            p.stats['fill-after-padded-data'] += 1
        if n < 0:
            # fill the window exactly as the sender sees it (-2: one byte more, which must raise): if the
            # sender's view is too generous the receiver will refuse the frame
            try:
                w = p.ep[side].c.local_flow_control_window(sid)
                mf = p.ep[side].c.max_outbound_frame_size
            except Exception:   # noqa: BLE001 - a query that raises is a dont-care here, the send decides
                w, mf = 0, 16384
            over = 0 if pad is None else pad + 1
            n = max(0, min(w, mf) - over) + (1 if n == -2 else 0)
            n = min(n, p.max_data)
            p.stats['data-fills-window'] += 1
        rem = p.cl.get((side, sid))
        if rem is not None:
            # declared content-length: never more than what is left of it, END_STREAM only with the last byte
            n = min(n, rem)
            es = n == rem and (es or ch.bool())
        body = bytes((i * 7 + n) & 0xff for i in range(min(n, 64))) + b'x' * max(0, n - 64)
        verdict, what = m.send_data_verdict(sid, es)
        if verdict != M.PERMIT:
            return

        def ok(o, base):
            if rem is not None:
                p.cl[(side, sid)] = rem - n
            if pad:
                p.padded[side].add(sid)
            if es:
                m.get(sid).send_end()
            evs = [('DataReceived', sid, body, n + (0 if pad is None else pad + 1), es)]
            if es:
                evs.append(('StreamEnded', sid))
            p.add(side, 'data', sid, evs, es)
        note()
        p.do_call(side, 'send_data', (sid, body), {'end_stream': es, 'pad_length': pad}, verdict, what, ok)
        return
    if op == 'rst':
        sid = pick_sid(ch, p, side, lambda st: st.state not in (M.CLOSED, M.IDLE))
        if sid is None:
            return
        code = ch.pick([0, 8, 7, 2, 0xff, 2 ** 32 - 1])
        verdict, what = m.reset_verdict(sid)

        def ok(o, base):
            m.get(sid).close('send-rst')
            p.add(side, 'rst', sid, [('StreamReset', sid, code, True)])
        note()
        p.do_call(side, 'reset_stream', (sid, code), {}, verdict, what, ok)
        return
    if op == 'ping':
        data = ch.bytes(8)

        def ok(o, base):
            p.add(side, 'ping', None, [('PingReceived', data)])
        note()
        p.do_call(side, 'ping', (data,), {}, M.PERMIT, 'ping', ok)
        return
    if op == 'wu':
        inc = ch.pick([1, 10, 65535, 2 ** 20])
        sid = None
        if ch.bool():
            sid = pick_sid(ch, p, side, lambda st: st.state in (M.OPEN, M.HC_LOCAL))
        verdict, what = m.window_update_verdict(sid)
        if verdict != M.PERMIT:
            return

        def ok(o, base):
            p.add(side, 'wu', sid, [('WindowUpdated', sid or 0, inc)])
        note()
        p.do_call(side, 'increment_flow_control_window', (inc,), {'stream_id': sid}, verdict, what, ok)
        return
    if op == 'ack':
        have = sorted(s_ for s_, v in p.unacked[side].items() if v > 0)
        if not have:
            return
        sid = ch.pick(have)
        n = ch.pick([p.unacked[side][sid], 1, max(1, p.unacked[side][sid] // 2)])
        p.unacked[side][sid] -= n

        def ok(o, base):
            if o.out:
                p.add_auto_frames(side, o.out, base, ('WINDOW_UPDATE',))
        note()
        p.do_call(side, 'acknowledge_received_data', (n, sid), {}, M.DONTCARE, 'ack', ok)
        return
    if op == 'settings':
        if p.outstanding[side]:
            p.r.excluded['second-outstanding-settings-frame-K02'] += 1
            return
        keys = forced_keys or [1, 3, 4, 5, 6] + ([2] if client else [8])
        changes = {}
        for _ in range(ch.int(1, 3)):
            k = ch.pick(keys)
            changes[k] = ch.pick(SETTING_VALUES[k])
        if 1 in changes and p.hts[side]:
            # a further HEADER_TABLE_SIZE change before the peer's encoder has emitted a block (F36)
            p.stats['several-table-size-changes-before-next-block'] += 1

        def ok(o, base):
            p.outstanding[side] += 1
            if 1 in changes:
                p.hts[side] = 1
            p.add(side, 'settings', None, None, dict(changes))
        note()
        p.do_call(side, 'update_settings', (dict(changes),), {}, M.PERMIT, 'settings', ok)
        return
    if op == 'prio':
        sid = ch.pick([1, 3, 5, 7, 101])
        w, d, e = ch.pick([1, 256, 16, ch.int(1, 256), ch.int(1, 256)]), ch.pick([0, 1, 3, 9]), ch.bool()
        if d == sid:
            d = 0

        def ok(o, base):
            p.add(side, 'prio', sid, [('PriorityUpdated', sid, w, d, e)])
        note()
        p.do_call(side, 'prioritize', (sid,), {'weight': w, 'depends_on': d, 'exclusive': e}, M.PERMIT, 'prio', ok)
        return
    if op == 'push':
        parent = pick_sid(ch, p, side, lambda st: st.state in (M.OPEN, M.HC_REMOTE) and st.sid % 2 == 1)
        if parent is None:
            return
        promised = m.hi_local + 2 if m.hi_local else 2
        if ch.chance(24):
            promised += 2 * ch.int(1, 3)
        hdrs, exp, q = header_list(ch, 'push', norm_in=p.norm_in[p.other(side)])
        if q != 'ok':
            return
        verdict, what = m.push_verdict(parent, promised)
        if verdict != M.PERMIT and what not in INERT_REFUSALS:
            p.r.excluded['state-machine-refusal-not-generated'] += 1
            return
        if ch.chance(20) and big_ok(p, side):
            hdrs, exp = with_field(hdrs, exp, (b'x-big', b'B' * ch.pick([16300, 17000, 40000])))
            p.stats['multi-frame-header-block'] += 1

        def ok(o, base):
            m.apply_push(parent, promised)
            p.add(side, 'push', parent, [('PushedStreamReceived', parent, promised, exp)], promised)
        note()
        p.do_call(side, 'push_stream', (parent, promised, hdrs), {}, verdict, what, ok)
        return
    if op == 'altsvc':
        if not m.seen_headers:
            p.r.excluded['state-machine-refusal-not-generated'] += 1
            return
        origin = ch.pick([b'example.com', b'a.b:443'])
        field = ch.pick([b'h2=":8000"; ma=60', b'clear'])

        def ok(o, base):
            p.add(side, 'altsvc', None, [('AlternativeServiceAvailable', origin, field)])
        note()
        p.do_call(side, 'advertise_alternative_service', (field,), {'origin': origin}, M.PERMIT, 'altsvc', ok)
        return
    if op == 'close':
        if not ch.chance(40):
            return
        code = ch.pick([0, 1, 2, 11])
        extra = ch.pick([None, b'', b'bye'])
        last = ch.pick([None, 0, m.hi_peer])

        def ok(o, base):
            p.self_closed.add(side)
            p.add(side, 'goaway', None,
                  [('ConnectionTerminated', code, m.hi_peer if last is None else last, extra or None)])
        note()
        p.do_call(side, 'close_connection', (code, extra, last), {}, M.PERMIT, 'close', ok)
        return
    if op == 'bad':
        gen_bad_call(ch, p, side)


def gen_bad_call(ch, p, side):
    """Calls that must raise (refusals made before any state machine is consulted) and contribute nothing."""
    m = p.m[side]
    client = side == 'c'
    if not m.seen_headers:
        # until the first HEADERS frame the connection state machine refuses most inputs itself (K03)
        p.r.excluded['state-machine-refusal-not-generated'] += 1
        return
    kind = ch.weighted([(3, 'unknown-stream'), (3, 'closed-stream'), (3, 'bad-headers'), (2, 'bad-settings'),
                        (2, 'role'), (2, 'window'), (2, 'ping-size'), (2, 'oversize-data'), (1, 'wrong-parity'),
                        (3, 'bad-trailers'), (2, 'unencodable-open'), (2, 'low-id-open'), (2, 'bad-priority')])
    p.stats['op:bad-' + kind] += 1

    def never(o, base):
        p.violate('call-expected-to-raise-succeeded:%s' % kind, repr(o.frames))

    if kind == 'unknown-stream':
        sid = pick_sid(ch, p, side, bad=True)
        name, args, kw = ch.pick([('send_data', (sid, b'x'), {}), ('end_stream', (sid,), {}),
                                  ('reset_stream', (sid,), {}),
                                  ('increment_flow_control_window', (5,), {'stream_id': sid})])
        if name == 'send_data':
            v, w = m.send_data_verdict(sid)
        elif name == 'end_stream':
            v, w = m.send_data_verdict(sid, True)
        elif name == 'reset_stream':
            v, w = m.reset_verdict(sid)
        else:
            v, w = m.window_update_verdict(sid)
        if v != M.REFUSE or w not in INERT_REFUSALS:
            return
        p.do_call(side, name, args, kw, v, w, never)
    elif kind == 'closed-stream':
        sid = pick_sid(ch, p, side, lambda st: st.state == M.CLOSED)
        if sid is None:
            return
        name, args, kw = ch.pick([('send_data', (sid, b'x'), {}), ('end_stream', (sid,), {}),
                                  ('reset_stream', (sid,), {}),
                                  ('send_headers', (sid, [(':status', '200')]), {}),
                                  ('increment_flow_control_window', (5,), {'stream_id': sid})])
        p.do_call(side, name, args, kw, M.REFUSE, 'stream-closed', never)
    elif kind == 'bad-headers':
        if client:
            sid = m.hi_local + 2 if m.hi_local else 1
            hdrs, exp, q = header_list(ch, 'final-request', want_bad=True)
            if q != 'bad':
                return
            v, w = m.send_headers_verdict(sid, 'final', False)
            if v != M.PERMIT:
                return
            p.do_call(side, 'send_headers', (sid, hdrs), {}, M.REFUSE, 'invalid-header-list', never)
        else:
            sid = pick_sid(ch, p, side, lambda st: st.state != M.CLOSED and m.headers_position(st) == 'response')
            if sid is None:
                return
            hdrs, exp, q = header_list(ch, 'final-response', want_bad=True)
            if q != 'bad':
                return
            v, w = m.send_headers_verdict(sid, 'final', False)
            if v != M.PERMIT:
                return
            p.do_call(side, 'send_headers', (sid, hdrs), {}, M.REFUSE, 'invalid-header-list', never)
    elif kind == 'bad-trailers':
        # trailers without END_STREAM, or with a pseudo-header field: refused before anything is sent, and the
        # stream is where it was (the proper trailers, or more DATA, follow later in the program)
        sid = pick_sid(ch, p, side, lambda st: st.can_send() and m.headers_position(st) == 'trailers')
        if sid is None:
            return
        if ch.bool():
            args, kw = (sid, [(b'x-trailer', b'1')]), {}
        else:
            args, kw = (sid, [(b'x-trailer', b'1'), (b':status', b'200')]), {'end_stream': True}
        p.do_call(side, 'send_headers', args, kw, M.REFUSE, 'message:trailers-without-end-stream', never)
    elif kind == 'unencodable-open':
        # an opening block with text that cannot be encoded: the call raises (UnicodeEncodeError is a ValueError)
        # and the id it named has not been used
        if client:
            sid = m.hi_local + 2 if m.hi_local else 1
            v, w = m.send_headers_verdict(sid, 'final', False)
            if v != M.PERMIT:
                return
            hdrs = [(':method', 'GET'), (':scheme', 'https'), (':path', '/'), (':authority', 'a'), ('x-bad', 'v\udcff')]
            p.do_call(side, 'send_headers', (sid, hdrs), {}, M.REFUSE, 'invalid-header-list', never)
        else:
            parent = pick_sid(ch, p, side, lambda st: st.state in (M.OPEN, M.HC_REMOTE) and st.sid % 2 == 1)
            pid = m.hi_local + 2 if m.hi_local else 2
            if parent is None or m.push_verdict(parent, pid)[0] != M.PERMIT:
                return
            hdrs = [(':method', 'GET'), (':scheme', 'https'), (':path', '/'), (':authority', 'a'), ('x-bad', 'v\udcff')]
            p.do_call(side, 'push_stream', (parent, pid, hdrs), {}, M.REFUSE, 'invalid-header-list', never)
    elif kind == 'low-id-open':
        # an id of our own kind below the highest one in use that no stream has ever had (skipped, or named by a
        # call that was refused): not available any more
        unused = [s for s in range(1 if client else 2, m.hi_local, 2) if m.get(s) is None]
        if not unused:
            return
        sid = ch.pick(unused)
        if client:
            hdrs = [(':method', 'GET'), (':scheme', 'https'), (':path', '/'), (':authority', 'a')]
            p.do_call(side, 'send_headers', (sid, hdrs), {}, M.REFUSE, 'stream-id-too-low', never)
        else:
            parent = pick_sid(ch, p, side, lambda st: st.state in (M.OPEN, M.HC_REMOTE) and st.sid % 2 == 1)
            if parent is None or not m.peer_enable_push:
                return
            hdrs = [(':method', 'GET'), (':scheme', 'https'), (':path', '/'), (':authority', 'a')]
            p.do_call(side, 'push_stream', (parent, sid, hdrs), {}, M.REFUSE, 'stream-id-too-low', never)
    elif kind == 'bad-priority':
        # priority arguments outside their range on an opening request: refused before any state is touched
        if not client:
            return
        sid = m.hi_local + 2 if m.hi_local else 1
        v, w = m.send_headers_verdict(sid, 'final', False)
        if v != M.PERMIT:
            return
        hdrs = [(':method', 'GET'), (':scheme', 'https'), (':path', '/'), (':authority', 'a')]
        kw = ch.pick([{'priority_weight': 0}, {'priority_weight': 257}, {'priority_depends_on': sid},
                      {'priority_weight': -1}])
        p.do_call(side, 'send_headers', (sid, hdrs), kw, M.REFUSE, 'invalid-priority', never)
    elif kind == 'bad-settings':
        k, v = ch.pick(BAD_SETTINGS)
        good = ch.pick([1, 4])
        p.do_call(side, 'update_settings', ({good: 1000, k: v},), {}, M.REFUSE, 'invalid-setting', never)
    elif kind == 'role':
        if client:
            if ch.bool():
                sid = pick_sid(ch, p, side, lambda st: st.state in (M.OPEN, M.HC_REMOTE))
                if sid is None:
                    return
                p.do_call(side, 'push_stream', (sid, 2, [(':method', 'GET'), (':scheme', 'https'), (':path', '/'),
                                                         (':authority', 'a')]), {}, M.REFUSE, 'client-cannot-push',
                          never)
            else:
                p.do_call(side, 'advertise_alternative_service', (b'h2=":1"',), {'origin': b'a'}, M.REFUSE,
                          'client-cannot-advertise', never)
        else:
            sid = pick_sid(ch, p, side, lambda st: st.state != M.CLOSED)
            if sid is None:
                return
            p.do_call(side, 'prioritize', (sid,), {'weight': 5}, M.REFUSE, 'server-cannot-prioritize', never)
    elif kind == 'window':
        inc = ch.pick([0, 2 ** 31, -1])
        p.do_call(side, 'increment_flow_control_window', (inc,), {}, M.REFUSE, 'bad-increment', never)
    elif kind == 'ping-size':
        p.do_call(side, 'ping', (b'x' * ch.pick([0, 7, 9]),), {}, M.REFUSE, 'bad-ping', never)
    elif kind == 'oversize-data':
        sid = pick_sid(ch, p, side, lambda st: st.can_send() and st.s_final and not st.s_trailers)
        if sid is None:
            return
        n = ch.pick([2 ** 24, 2 ** 20 + 70000])
        try:
            room = min(p.ep[side].c.local_flow_control_window(sid), p.ep[side].c.max_outbound_frame_size)
        except Exception:   # noqa: BLE001 - the send decides
            room = 0
        if n <= room:
            # (after enough window updates and a raised MAX_FRAME_SIZE even this fits: then it is no refusal)
            p.r.excluded['oversize-data-that-fits'] += 1
            return
        p.do_call(side, 'send_data', (sid, b'z' * n), {}, M.REFUSE, 'flow-control-or-frame-size', never)
    elif kind == 'wrong-parity':
        top = max(m.hi_local, m.hi_peer) + 11
        if client:
            sid = top + (top % 2)          # an even id no stream has used: not the client's to open
            hdrs = [(':method', 'GET'), (':scheme', 'https'), (':path', '/'), (':authority', 'a')]
        else:
            sid = top + (1 - top % 2)      # an odd id the client has not opened
            hdrs = [(':status', '200')]
        v, w = m.send_headers_verdict(sid, 'final', False)
        if v != M.REFUSE or w not in INERT_REFUSALS:
            return
        p.do_call(side, 'send_headers', (sid, hdrs), {}, v, w, never)


# ---------------------------------------------------------------------------
# twin replay: the same program with every raising call removed

def twin_check(p, make_raw):
    """Returns None, or (key, detail) for the first step whose outcome differs when the raising calls are absent."""
    if not p.raised:
        return None
    twin = make_raw()
    removed = set(p.raised)
    last_removed = None
    for i, step in enumerate(p.steps):
        a = p.sigs[i]
        if i in removed:
            last_removed = (step, a)
            continue
        b = outcome_sig(twin.exec(step))
        if a != b:
            st, ao = last_removed if last_removed else (('call', '?', '?'), (None, '?'))
            return ('raised-call-not-inert:%s:%s' % (st[2], ao[1]),
                    'step %d %r: with the raising call %s / without it %s' % (i, step[:3], a[:3], b[:3]))
    return None
