"""Independent HTTP/2 frame codec (RFC 7540 s4, s6; RFC 7838 s4).

Written for this harness; imports nothing from hyperframe or h2.  The parser
is *strict*: every deviation from the RFC framing rules is reported in
``Frame.problems`` so an output monitor can treat it as a violation.  The
builder can emit any frame, including malformed ones.
"""
import struct

DATA, HEADERS, PRIORITY, RST_STREAM, SETTINGS, PUSH_PROMISE, PING, GOAWAY, \
    WINDOW_UPDATE, CONTINUATION, ALTSVC = range(11)
NAMES = ['DATA', 'HEADERS', 'PRIORITY', 'RST_STREAM', 'SETTINGS',
         'PUSH_PROMISE', 'PING', 'GOAWAY', 'WINDOW_UPDATE', 'CONTINUATION',
         'ALTSVC']

F_END_STREAM = 0x1
F_ACK = 0x1
F_END_HEADERS = 0x4
F_PADDED = 0x8
F_PRIORITY = 0x20

PREFACE = b'PRI * HTTP/2.0\r\n\r\nSM\r\n\r\n'

# flags defined per frame type (RFC 7540 s6)
DEFINED_FLAGS = {
    DATA: F_END_STREAM | F_PADDED,
    HEADERS: F_END_STREAM | F_END_HEADERS | F_PADDED | F_PRIORITY,
    PRIORITY: 0, RST_STREAM: 0, SETTINGS: F_ACK,
    PUSH_PROMISE: F_END_HEADERS | F_PADDED, PING: F_ACK, GOAWAY: 0,
    WINDOW_UPDATE: 0, CONTINUATION: F_END_HEADERS, ALTSVC: 0,
}

# error codes
NO_ERROR, PROTOCOL_ERROR, INTERNAL_ERROR, FLOW_CONTROL_ERROR, SETTINGS_TIMEOUT, \
    STREAM_CLOSED, FRAME_SIZE_ERROR, REFUSED_STREAM, CANCEL, COMPRESSION_ERROR, \
    CONNECT_ERROR, ENHANCE_YOUR_CALM, INADEQUATE_SECURITY, HTTP_1_1_REQUIRED = range(14)

# settings ids
S_HEADER_TABLE_SIZE, S_ENABLE_PUSH, S_MAX_CONCURRENT_STREAMS, \
    S_INITIAL_WINDOW_SIZE, S_MAX_FRAME_SIZE, S_MAX_HEADER_LIST_SIZE = range(1, 7)
S_ENABLE_CONNECT_PROTOCOL = 8


class Frame:
    __slots__ = ('type', 'flags', 'stream_id', 'length', 'payload', 'rbit',
                 'problems', 'f')

    def __init__(self, type_, flags, stream_id, payload, rbit=0):
        self.type = type_
        self.flags = flags
        self.stream_id = stream_id
        self.payload = payload
        self.length = len(payload)
        self.rbit = rbit
        self.problems = []
        self.f = {}          # decoded fields

    @property
    def name(self):
        return NAMES[self.type] if self.type < len(NAMES) else 'T%d' % self.type

    def has(self, flag):
        return bool(self.flags & flag)

    def brief(self):
        d = {'t': self.name, 'sid': self.stream_id, 'fl': self.flags,
             'len': self.length}
        for k, v in self.f.items():
            if isinstance(v, (bytes, bytearray, memoryview)):
                v = bytes(v)
                v = v.hex() if len(v) <= 24 else v[:24].hex() + '..(%d)' % len(v)
            d[k] = v
        if self.problems:
            d['problems'] = list(self.problems)
        return d

    def __repr__(self):
        return 'Frame(%r)' % (self.brief(),)


def _strip_padding(fr, body):
    """Return body without pad-length octet and padding; record pad length."""
    if fr.flags & F_PADDED:
        if len(body) < 1:
            fr.problems.append('padded-frame-too-short')
            fr.f['pad'] = None
            return body
        pad = body[0]
        body = body[1:]
        fr.f['pad'] = pad
        if pad > len(body):
            fr.problems.append('padding-exceeds-payload')
            return b''
        if pad:
            if any(body[len(body) - pad:]):
                fr.f['nonzero_padding'] = True
            body = body[:len(body) - pad]
    else:
        fr.f['pad'] = None
    return body


def _decode(fr):
    t, p, sid = fr.type, fr.payload, fr.stream_id
    if t in DEFINED_FLAGS:
        undefined = fr.flags & ~DEFINED_FLAGS[t] & 0xFF
        if undefined:
            fr.problems.append('undefined-flags:%#x' % undefined)
    if fr.rbit:
        fr.problems.append('reserved-bit-set')
    if t == DATA:
        if sid == 0:
            fr.problems.append('stream-zero')
        fr.f['data'] = bytes(_strip_padding(fr, p))
        fr.f['fc_len'] = len(p)
    elif t == HEADERS:
        if sid == 0:
            fr.problems.append('stream-zero')
        body = _strip_padding(fr, p)
        if fr.flags & F_PRIORITY:
            if len(body) < 5:
                fr.problems.append('priority-fields-truncated')
            else:
                dep, w = struct.unpack('>IB', body[:5])
                fr.f['exclusive'] = bool(dep >> 31)
                fr.f['depends_on'] = dep & 0x7FFFFFFF
                fr.f['weight'] = w + 1
                body = body[5:]
        fr.f['block'] = bytes(body)
    elif t == PRIORITY:
        if sid == 0:
            fr.problems.append('stream-zero')
        if len(p) != 5:
            fr.problems.append('bad-length')
        else:
            dep, w = struct.unpack('>IB', p)
            fr.f['exclusive'] = bool(dep >> 31)
            fr.f['depends_on'] = dep & 0x7FFFFFFF
            fr.f['weight'] = w + 1
    elif t == RST_STREAM:
        if sid == 0:
            fr.problems.append('stream-zero')
        if len(p) != 4:
            fr.problems.append('bad-length')
        else:
            fr.f['code'] = struct.unpack('>I', p)[0]
    elif t == SETTINGS:
        if sid != 0:
            fr.problems.append('stream-nonzero')
        if fr.flags & F_ACK and len(p):
            fr.problems.append('ack-with-payload')
        if len(p) % 6:
            fr.problems.append('bad-length')
        fr.f['settings'] = [struct.unpack('>HI', p[i:i + 6])
                            for i in range(0, len(p) - len(p) % 6, 6)]
        fr.f['ack'] = bool(fr.flags & F_ACK)
    elif t == PUSH_PROMISE:
        if sid == 0:
            fr.problems.append('stream-zero')
        body = _strip_padding(fr, p)
        if len(body) < 4:
            fr.problems.append('promised-id-truncated')
        else:
            pid = struct.unpack('>I', body[:4])[0]
            if pid >> 31:
                fr.problems.append('promised-reserved-bit-set')
            fr.f['promised'] = pid & 0x7FFFFFFF
            fr.f['block'] = bytes(body[4:])
    elif t == PING:
        if sid != 0:
            fr.problems.append('stream-nonzero')
        if len(p) != 8:
            fr.problems.append('bad-length')
        fr.f['data'] = bytes(p)
        fr.f['ack'] = bool(fr.flags & F_ACK)
    elif t == GOAWAY:
        if sid != 0:
            fr.problems.append('stream-nonzero')
        if len(p) < 8:
            fr.problems.append('bad-length')
        else:
            last, code = struct.unpack('>II', p[:8])
            if last >> 31:
                fr.problems.append('last-stream-reserved-bit-set')
            fr.f['last'] = last & 0x7FFFFFFF
            fr.f['code'] = code
            fr.f['debug'] = bytes(p[8:])
    elif t == WINDOW_UPDATE:
        if len(p) != 4:
            fr.problems.append('bad-length')
        else:
            inc = struct.unpack('>I', p)[0]
            if inc >> 31:
                fr.problems.append('increment-reserved-bit-set')
            fr.f['inc'] = inc & 0x7FFFFFFF
            if fr.f['inc'] == 0:
                fr.problems.append('zero-increment')
    elif t == CONTINUATION:
        if sid == 0:
            fr.problems.append('stream-zero')
        fr.f['block'] = bytes(p)
    elif t == ALTSVC:
        if len(p) < 2:
            fr.problems.append('bad-length')
        else:
            olen = struct.unpack('>H', p[:2])[0]
            if olen > len(p) - 2:
                fr.problems.append('origin-len-exceeds-payload')
            else:
                fr.f['origin'] = bytes(p[2:2 + olen])
                fr.f['field'] = bytes(p[2 + olen:])
    return fr


def parse_header(b9):
    length = (b9[0] << 16) | (b9[1] << 8) | b9[2]
    t = b9[3]
    flags = b9[4]
    sid = struct.unpack('>I', b9[5:9])[0]
    return length, t, flags, sid >> 31, sid & 0x7FFFFFFF


def parse_all(data):
    """Parse as many complete frames as ``data`` holds.

    Returns (frames, remainder)."""
    data = bytes(data)
    frames = []
    pos = 0
    n = len(data)
    while n - pos >= 9:
        length, t, flags, rbit, sid = parse_header(data[pos:pos + 9])
        if n - pos - 9 < length:
            break
        fr = Frame(t, flags, sid, data[pos + 9:pos + 9 + length], rbit)
        _decode(fr)
        frames.append(fr)
        pos += 9 + length
    return frames, data[pos:]


def frame_boundaries(data):
    """Offsets at which frames start (and the end offset) in ``data``."""
    offs = [0]
    pos = 0
    n = len(data)
    while n - pos >= 9:
        length = (data[pos] << 16) | (data[pos + 1] << 8) | data[pos + 2]
        if n - pos - 9 < length:
            break
        pos += 9 + length
        offs.append(pos)
    return offs


# --------------------------------------------------------------------------
# builders

def raw(type_, flags, stream_id, payload=b'', length=None, rbit=0):
    """Any frame at all.  ``length`` overrides the length field."""
    ln = len(payload) if length is None else length
    return (struct.pack('>I', ln)[1:] + bytes([type_ & 0xFF, flags & 0xFF]) +
            struct.pack('>I', (stream_id & 0x7FFFFFFF) | (rbit << 31)) +
            bytes(payload))


def _pad(flags, body, pad):
    if pad is None:
        return flags, body
    return flags | F_PADDED, bytes([pad]) + body + b'\0' * pad


def data(sid, payload=b'', end_stream=False, pad=None):
    flags, body = _pad(F_END_STREAM if end_stream else 0, bytes(payload), pad)
    return raw(DATA, flags, sid, body)


def prio_fields(depends_on=0, weight=16, exclusive=False):
    return struct.pack('>IB', (depends_on & 0x7FFFFFFF) |
                       (0x80000000 if exclusive else 0), (weight - 1) & 0xFF)


def headers(sid, block, end_stream=False, end_headers=True, priority=None,
            pad=None):
    flags = (F_END_STREAM if end_stream else 0) | \
        (F_END_HEADERS if end_headers else 0)
    body = bytes(block)
    if priority is not None:
        flags |= F_PRIORITY
        body = prio_fields(*priority) + body
    flags, body = _pad(flags, body, pad)
    return raw(HEADERS, flags, sid, body)


def continuation(sid, block, end_headers=True):
    return raw(CONTINUATION, F_END_HEADERS if end_headers else 0, sid, block)


def priority(sid, depends_on=0, weight=16, exclusive=False):
    return raw(PRIORITY, 0, sid, prio_fields(depends_on, weight, exclusive))


def rst_stream(sid, code=0):
    return raw(RST_STREAM, 0, sid, struct.pack('>I', code & 0xFFFFFFFF))


def settings(pairs=(), ack=False):
    body = b''.join(struct.pack('>HI', k & 0xFFFF, v & 0xFFFFFFFF)
                    for k, v in pairs)
    return raw(SETTINGS, F_ACK if ack else 0, 0, body)


def push_promise(sid, promised, block, end_headers=True, pad=None):
    flags = F_END_HEADERS if end_headers else 0
    body = struct.pack('>I', promised & 0x7FFFFFFF) + bytes(block)
    flags, body = _pad(flags, body, pad)
    return raw(PUSH_PROMISE, flags, sid, body)


def ping(opaque=b'\0' * 8, ack=False):
    return raw(PING, F_ACK if ack else 0, 0, opaque)


def goaway(last=0, code=0, debug=b''):
    return raw(GOAWAY, 0, 0, struct.pack('>II', last & 0x7FFFFFFF,
                                         code & 0xFFFFFFFF) + debug)


def window_update(sid, inc):
    return raw(WINDOW_UPDATE, 0, sid, struct.pack('>I', inc & 0x7FFFFFFF))


def altsvc(sid, origin=b'', field=b''):
    return raw(ALTSVC, 0, sid, struct.pack('>H', len(origin)) + origin + field)


def split_block(block, sizes):
    """Split a header block into fragments of the given sizes (last takes rest)."""
    out = []
    pos = 0
    for s in sizes:
        out.append(block[pos:pos + s])
        pos += s
    out.append(block[pos:])
    return out


def header_block_frames(sid, block, fragments=None, end_stream=False,
                        priority=None, pad=None, promised=None):
    """HEADERS (or PUSH_PROMISE if promised) + CONTINUATIONs for ``block``."""
    parts = split_block(block, fragments or [])
    out = []
    last = len(parts) - 1
    for i, part in enumerate(parts):
        if i == 0:
            if promised is None:
                out.append(headers(sid, part, end_stream, i == last, priority,
                                   pad))
            else:
                out.append(push_promise(sid, promised, part, i == last, pad))
        else:
            out.append(continuation(sid, part, i == last))
    return b''.join(out)
