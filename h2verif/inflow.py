"""Shared generator + reference model for inbound flow control (C04, C05).

The model is the *advertised* window: acknowledged initial size, plus the
WINDOW_UPDATE increments actually seen in the endpoint's output, minus the
flow-controlled length of the DATA fed to it - per stream and for the
connection.  Nothing is read from the library except through the public calls
remote_flow_control_window / inbound_flow_control_window.
"""
from . import wire
from .choose import Chooser
from .runner import Result
from .solo import Solo, REQ, RESP

TOP = 2**31 - 1
IWS_CHOICES = [65535, 0, 1, 2, 3, 4, 5, 7, 8, 100, 1023, 1024, 1025, 4096, 16384, 40000, 70000, 2**20]


class St:
    __slots__ = ('sid', 'win', 'max', 'open', 'recv', 'acked', 'credited', 'manual', 'closed_how', 'reserved')

    def __init__(self, sid, init):
        self.sid = sid
        self.win = init        # advertised stream window
        self.max = init        # maximum the automatic policy may restore
        self.open = True       # peer may still send DATA
        self.recv = 0          # flow-controlled bytes received and shown to the app
        self.acked = 0         # bytes the app acknowledged
        self.credited = 0      # increments emitted
        self.manual = False
        self.closed_how = None
        self.reserved = False  # promised to us, response headers not yet received (reserved (remote))


class Model:
    def __init__(self):
        self.conn = 65535
        self.conn_max = 65535
        self.conn_recv = 0
        self.conn_acked = 0       # acknowledged by the app or by the library on its behalf
        self.conn_credited = 0
        self.conn_manual = False
        self.iws = 65535          # acknowledged local INITIAL_WINDOW_SIZE
        self.pending = []         # un-acknowledged local INITIAL_WINDOW_SIZE values
        self.streams = {}


def run(data, prop, manual_ops, overrun_ops):
    """prop: 'C04' or 'C05'."""
    ch = Chooser(data)
    r = Result()
    client = ch.chance(100)
    s = Solo(client)
    s.start()
    m = Model()
    r.step('role', 'client' if client else 'server')
    next_sid = 1
    next_push = 2
    tiny_streams = set()
    zero_seen = False
    max_changed_outstanding = False
    overflow_attempt = False
    overrun_attempt = False
    later_success = False
    raised_window_call = False
    dead = False

    def absorb(o):
        """Account WINDOW_UPDATE frames the endpoint emitted."""
        for f in o.frames:
            if f.type == wire.WINDOW_UPDATE and 'inc' in f.f:
                inc = f.f['inc']
                if f.stream_id == 0:
                    m.conn += inc
                    m.conn_credited += inc
                elif f.stream_id in m.streams:
                    st = m.streams[f.stream_id]
                    st.win += inc
                    st.credited += inc
                else:
                    r.violate('%s:window-update-for-unknown-stream' % prop, repr(f))

    def check_windows(where):
        ok = True
        for st in m.streams.values():
            if not st.open:
                continue
            q = s.call('remote_flow_control_window', st.sid)
            if not q.ok:
                r.violate('%s:window-query-failed:%s' % (prop, q.exc_name), where)
                ok = False
            elif q.value != min(m.conn, st.win):
                r.violate('%s:window-differs-from-advertised:after-%s' % (prop, where.split()[-1]),
                          '%s stream %d: library %r, advertised min(conn=%d, stream=%d)' %
                          (where, st.sid, q.value, m.conn, st.win))
                ok = False
        if s.c.inbound_flow_control_window != m.conn:
            r.violate('%s:connection-window-differs-from-advertised:after-%s' % (prop, where.split()[-1]),
                      '%s library %r advertised %d' % (where, s.c.inbound_flow_control_window, m.conn))
            ok = False
        return ok

    def check_credit(where):
        nonlocal zero_seen
        if m.conn_credited > m.conn_acked and not m.conn_manual:
            r.violate('C05:over-credit:connection', '%s credited %d acked %d' %
                      (where, m.conn_credited, m.conn_acked))
        if not m.conn_manual and m.conn > m.conn_max:
            r.violate('C05:window-above-maximum:connection', '%s %d > %d' % (where, m.conn, m.conn_max))
        if m.conn > TOP:
            r.violate('C05:window-above-2^31-1:connection', where)
        if m.conn == 0:
            zero_seen = True
        all_acked = m.conn_recv == m.conn_acked
        for st in m.streams.values():
            if st.manual:
                continue
            if st.credited > st.acked:
                r.violate('C05:over-credit:stream', '%s stream %d credited %d acked %d' %
                          (where, st.sid, st.credited, st.acked))
            if st.open and st.win > st.max:
                r.violate('C05:window-above-maximum:stream', '%s stream %d %d > %d' %
                          (where, st.sid, st.win, st.max))
            if st.win > TOP:
                r.violate('C05:window-above-2^31-1:stream', where)
            if st.open and st.win == 0:
                zero_seen = True
            if st.open and st.recv != st.acked:
                all_acked = False
        if all_acked:
            if m.conn_max > 0 and m.conn <= 0 and not m.conn_manual:
                r.violate('C05:deadlock:connection-window-stays-%s' % ('zero' if m.conn == 0 else 'negative'),
                          where)
            for st in m.streams.values():
                if st.open and not st.manual and st.max > 0 and st.win <= 0:
                    r.violate('C05:deadlock:stream-window-stays-%s' % ('zero' if st.win == 0 else 'negative'),
                              '%s stream %d max %d' % (where, st.sid, st.max))

    nsteps = ch.int(4, 40)
    for stepno in range(nsteps):
        if r.violations:
            break
        live = [st for st in m.streams.values() if st.open and not st.reserved]
        ops = [(3, 'open'), (10, 'data'), (8, 'ack'), (2, 'iws'), (2, 'iws-ack'),
               (1, 'peer-rst'), (1, 'local-rst'), (2, 'data-closed'), (1, 'end')]
        if client:
            ops += [(2, 'push'), (3, 'push-resp')]
        if manual_ops:
            ops += [(4, 'inc'), (2, 'inc-bad'), (2, 'ack-odd'), (2, 'inc-closed')]
        op = ch.weighted(ops)
        if op == 'open' or not m.streams:
            if len(m.streams) >= 8:
                continue
            sid = next_sid
            next_sid += 2
            # some messages declare an empty body: the only DATA they then get is an overrun attempt, which is a
            # flow-control violation first and foremost (C04), and empty frames
            tiny = overrun_ops and ch.chance(24)
            extra = [(b'content-length', b'0')] if tiny else []
            if client:
                o = s.call('send_headers', sid, REQ)
                if not o.ok:
                    r.violate('%s:harness:send_headers-failed' % prop, o.brief())
                    break
                o = s.feed(wire.headers(sid, s.hblock(RESP + extra)))
            else:
                o = s.feed(wire.headers(sid, s.hblock(REQ[:1] + [(b':scheme', b'https'), (b':authority', b'example.com'),
                                                                  (b':path', b'/')] + extra if tiny else REQ)))
            if not o.ok:
                r.violate('%s:valid-open-rejected:%s' % (prop, o.exc_name), repr(o.exc))
                break
            m.streams[sid] = St(sid, m.iws)
            if tiny:
                tiny_streams.add(sid)
                r.labels.add('content-length-0-stream')
            r.step('open', sid, 'iws', m.iws)
            absorb(o)
        elif op == 'push':
            # a promised stream is reserved (remote): it has an advertised window from the start, and a
            # local INITIAL_WINDOW_SIZE change applies to it like to every other stream (RFC 7540 s6.9.2)
            parents = [st for st in live if st.sid % 2]
            if not parents or sum(1 for st in m.streams.values() if st.reserved) >= 3:
                continue
            par = ch.pick(parents)
            pid = next_push
            next_push += 2
            o = s.feed(wire.push_promise(par.sid, pid, s.hblock(REQ)))
            r.step('push-promise', par.sid, pid, o.brief())
            if not o.ok:
                r.violate('%s:valid-push-rejected:%s' % (prop, o.exc_name), repr(o.exc))
                break
            st = St(pid, m.iws)
            st.reserved = True
            m.streams[pid] = st
            absorb(o)
            r.labels.add('pushed')
        elif op == 'push-resp':
            cands = [st for st in m.streams.values() if st.reserved and st.open]
            if not cands:
                continue
            st = ch.pick(cands)
            o = s.feed(wire.headers(st.sid, s.hblock(RESP)))
            r.step('pushed-response', st.sid, o.brief())
            if not o.ok:
                r.violate('%s:valid-pushed-response-rejected:%s' % (prop, o.exc_name), repr(o.exc))
                break
            st.reserved = False
            absorb(o)
            r.labels.add('pushed-response')
        elif op in ('data', 'end'):
            if not live:
                continue
            st = ch.pick(live)
            w = min(m.conn, st.win)
            limit = 16384
            pad = None
            if ch.chance(64):
                pad = ch.pick([0, 1, 255, 7])
            overhead = 0 if pad is None else pad + 1
            kind = ch.weighted([(6, 'fits'), (3, 'exact'), (2, 'overrun' if overrun_ops else 'exact'),
                                (2, 'empty')])
            if st.sid in tiny_streams and kind != 'overrun':
                kind, pad = 'empty', None
            if kind == 'fits':
                n = ch.int(0, max(0, min(w, limit) - overhead)) if w >= overhead else -1
            elif kind == 'exact':
                n = w - overhead
            elif kind == 'overrun':
                n = w + 1 - overhead
            else:
                n = 0
            if n < 0:
                pad, overhead, n = None, 0, max(0, min(w, 1))
            if n + overhead > limit:
                n = limit - overhead
            fc = n + overhead
            if fc > w and kind != 'overrun':
                pad, overhead = None, 0
                n = max(0, min(n, w))
                fc = n
                if fc > w:
                    continue
            if st.sid in tiny_streams and not (fc > 0 and (fc > m.conn or fc > st.win)):
                # not an overrun after all (clipped to the frame size): nothing but an empty frame fits the
                # declared empty body
                n, pad, overhead, fc = 0, None, 0, 0
            end = op == 'end'
            o = s.feed(wire.data(st.sid, b'x' * n, end_stream=end, pad=pad))
            r.step('data', st.sid, 'len', n, 'pad', pad, 'fc', fc, 'win', w, 'end', end, o.brief())
            # an empty frame consumes no window and so cannot overrun one, even a window that a
            # SETTINGS_INITIAL_WINDOW_SIZE decrease has made negative (RFC 7540 s6.9.1/6.9.2; finding F30)
            if fc > 0 and (fc > m.conn or fc > st.win):
                overrun_attempt = True
                goaways = [f for f in o.frames if f.type == wire.GOAWAY]
                if o.ok:
                    r.violate('C04:overrun-accepted', 'fc %d conn %d stream %d' % (fc, m.conn, st.win))
                elif not o.is_protocol_error() or o.code != wire.FLOW_CONTROL_ERROR:
                    r.violate('C04:overrun-wrong-error:%s:%s' % (o.exc_name, o.code), '')
                elif len(goaways) != 1 or goaways[0].f.get('code') != wire.FLOW_CONTROL_ERROR:
                    r.violate('C04:overrun-wrong-goaway', repr(o.frames))
                r.labels.add('overrun')
                dead = True
                break
            if not o.ok:
                r.violate('C04:fitting-data-rejected:%s:%s' % (o.exc_name, o.code),
                          'fc %d conn %d stream %d' % (fc, m.conn, st.win))
                break
            evs = [e for e in o.events if e[0] == 'DataReceived']
            if len(evs) != 1 or evs[0][3] != fc:
                r.violate('%s:data-event-wrong' % prop, repr(o.events))
                break
            m.conn -= fc
            st.win -= fc
            m.conn_recv += fc
            st.recv += fc
            later_success = later_success or overflow_attempt or raised_window_call
            if end:
                st.open = False
                st.closed_how = 'end'
                # bytes never acknowledged by the app on an ended stream still count for the connection
            absorb(o)
            if pad is not None:
                r.labels.add('padded')
        elif op == 'ack':
            cands = [st for st in m.streams.values() if st.recv > st.acked]
            if not cands:
                continue
            st = ch.pick(cands)
            out = st.recv - st.acked
            n = ch.weighted([(4, out), (3, ch.int(1, out)), (1, 1)])
            o = s.call('acknowledge_received_data', n, st.sid)
            r.step('ack', st.sid, n, o.brief(), [f.brief() for f in o.frames])
            if not o.ok:
                r.violate('%s:valid-acknowledgement-raised:%s' % (prop, o.exc_name), repr(o.exc))
                break
            st.acked += n
            m.conn_acked += n
            absorb(o)
        elif op == 'ack-odd':
            # acknowledgements a well-typed caller can make: zero, negative, more than received,
            # for a never-used id, for a closed stream
            kind = ch.pick(['zero', 'negative', 'more', 'unused-id', 'sid0'])
            sid = ch.pick(sorted(m.streams)) if m.streams else 1
            n = {'zero': 0, 'negative': -ch.int(1, 9), 'more': ch.int(1, 70000),
                 'unused-id': ch.int(0, 5), 'sid0': 1}[kind]
            if kind == 'unused-id':
                sid = next_sid + 2 * ch.int(0, 3)
            if kind == 'sid0':
                sid = ch.pick([0, -1])
            o = s.call('acknowledge_received_data', n, sid)
            r.step('ack-odd', kind, sid, n, o.brief(), [f.brief() for f in o.frames])
            if not o.ok:
                raised_window_call = True
                if o.out:
                    r.violate('C04:raising-acknowledgement-emitted', o.out.hex())
            else:
                if kind == 'more' and sid in m.streams:
                    # over-acknowledgement is the application's business: credit follows the frames
                    m.streams[sid].manual = True
                    m.conn_manual = True
            absorb(o)
            r.labels.add('ack-' + kind)
        elif op == 'inc':
            target = ch.pick([None] + [st.sid for st in live]) if live else None
            cur = m.conn if target is None else m.streams[target].win
            room = TOP - cur
            kind = ch.weighted([(5, 'small'), (2, 'fill'), (3, 'overflow')])
            if kind == 'small':
                inc = ch.int(1, max(1, min(room, 70000)))
                if inc > room:
                    kind = 'overflow'
            elif kind == 'fill':
                inc = min(room, TOP)
                if inc < 1:
                    inc, kind = 1, 'overflow'
            else:
                inc = min(TOP, room + ch.pick([1, 2, 1000]))
                if inc <= room:
                    kind = 'small'
            o = s.call('increment_flow_control_window', inc, target)
            r.step('inc', target, inc, kind, o.brief())
            if kind == 'overflow':
                overflow_attempt = True
                raised_window_call = True
                r.labels.add('overflowing-increment')
                if o.ok:
                    r.violate('C04:overflowing-increment-accepted', 'window %d inc %d' % (cur, inc))
                    break
                if not o.is_h2error() and not isinstance(o.exc, ValueError):
                    r.violate('C04:overflowing-increment-wrong-exception:%s' % o.exc_name, '')
                if o.out:
                    r.violate('C04:raising-increment-emitted', o.out.hex())
            else:
                if not o.ok:
                    r.violate('C04:valid-increment-rejected:%s' % o.exc_name, 'window %d inc %d' % (cur, inc))
                    break
                wus = [f for f in o.frames if f.type == wire.WINDOW_UPDATE]
                if len(o.frames) != 1 or len(wus) != 1 or wus[0].f.get('inc') != inc or \
                        wus[0].stream_id != (target or 0):
                    r.violate('C04:increment-wrong-frame', repr(o.frames))
                later_success = later_success or overflow_attempt or raised_window_call
                if target is None:
                    m.conn_manual = True
                    m.conn_max = max(m.conn_max, m.conn + inc)
                else:
                    m.streams[target].manual = True
            absorb(o)
        elif op == 'inc-closed':
            # a window increment for a stream that was reset (the library may still hold it): a call that raises
            # changes no window and emits nothing
            cands = [st for st in m.streams.values() if st.closed_how in ('peer-rst', 'local-rst')]
            if not cands:
                continue
            st = ch.pick(cands)
            if ch.bool() and TOP - m.conn > 200000:
                # open the connection window first so that it does not hide the stream's own window
                o = s.call('increment_flow_control_window', 150000, None)
                if not o.ok:
                    r.violate('C04:valid-increment-rejected:%s' % o.exc_name, 'connection, 150000')
                    break
                m.conn_manual = True
                m.conn_max = max(m.conn_max, m.conn + 150000)
                absorb(o)
            before = s.call('remote_flow_control_window', st.sid)
            inc = ch.pick([1, 1000, 70000])
            o = s.call('increment_flow_control_window', inc, st.sid)
            after = s.call('remote_flow_control_window', st.sid)
            r.step('inc-closed', st.sid, st.closed_how, inc, o.brief(), 'window', before.value if before.ok else before.brief(),
                   after.value if after.ok else after.brief())
            if not o.ok:
                raised_window_call = True
                r.labels.add('increment-on-reset-stream-refused')
                if o.out:
                    r.violate('C04:raising-increment-emitted', o.out.hex())
                if before.ok and after.ok and before.value != after.value:
                    r.violate('C04:raising-increment-changed-window', 'stream %d (%s): %r -> %r' %
                              (st.sid, st.closed_how, before.value, after.value))
                    break
            else:
                st.manual = True
                absorb(o)
        elif op == 'inc-bad':
            inc = ch.pick([0, -1, 2**31, 2**32, -2**31])
            target = ch.pick([None] + [st.sid for st in live]) if live else None
            o = s.call('increment_flow_control_window', inc, target)
            r.step('inc-bad', target, inc, o.brief())
            raised_window_call = True
            if o.ok or not isinstance(o.exc, ValueError):
                r.violate('C04:out-of-range-increment:%s' % o.brief(), str(inc))
            if o.out:
                r.violate('C04:raising-increment-emitted', o.out.hex())
        elif op == 'iws':
            if len(m.pending) >= 3:
                continue
            v = ch.pick(IWS_CHOICES)
            o = s.call('update_settings', {wire.S_INITIAL_WINDOW_SIZE: v})
            r.step('update_settings', 'iws', v, o.brief())
            if not o.ok:
                r.violate('%s:valid-update-settings-raised' % prop, repr(o.exc))
                break
            m.pending.append(v)
        elif op == 'iws-ack':
            if not m.pending:
                continue
            v = m.pending.pop(0)
            delta = v - m.iws
            o = s.feed(wire.settings(ack=True))
            r.step('settings-ack', 'iws', v, o.brief())
            # closed streams the library still holds receive the delta too
            too_big = any(st.win + delta > TOP for st in m.streams.values())
            if too_big:
                # our own setting pushed an advertised window past 2^31-1: outside the property
                r.labels.add('self-overflow-by-settings')
                break
            if not o.ok:
                r.violate('%s:settings-ack-rejected:%s' % (prop, o.exc_name), repr(o.exc))
                break
            for st in m.streams.values():
                if st.closed_how is None:
                    if st.recv != st.acked or st.win != st.max:
                        max_changed_outstanding = True
                    st.win += delta
                    st.max += delta
                    if st.reserved:
                        r.labels.add('iws-ack-with-reserved-stream')
                elif st.closed_how == 'end':
                    # the peer ended its side, ours is still open: the library still holds the stream and
                    # keeps adjusting its window, which matters for the self-overflow exemption above
                    st.win += delta
            m.iws = v
            absorb(o)
        elif op in ('peer-rst', 'local-rst'):
            if not live:
                continue
            st = ch.pick(live + [x for x in m.streams.values() if x.reserved and x.open])
            if op == 'peer-rst':
                o = s.feed(wire.rst_stream(st.sid, wire.CANCEL))
            else:
                o = s.call('reset_stream', st.sid)
            r.step(op, st.sid, o.brief())
            if not o.ok:
                r.violate('%s:reset-failed:%s' % (prop, o.exc_name), '')
                break
            st.open = False
            st.closed_how = op
            absorb(o)
        elif op == 'data-closed':
            cands = [st for st in m.streams.values() if st.closed_how in ('peer-rst', 'local-rst', 'end')]
            if not cands:
                continue
            st = ch.pick(cands)
            if st.closed_how == 'end' and not client:
                # DATA after END_STREAM: leniency, stream error + credited
                pass
            n = ch.int(0, max(0, min(m.conn, 16384)))
            if m.conn <= 0:
                continue
            trigger_cleanup = ch.bool()
            pad = ch.pick([None, None, 0, 7, 255])
            if pad is not None and n + pad + 1 <= min(m.conn, 16384):
                payload_len, n = n, n + pad + 1     # padding is flow-controlled too
                r.labels.add('padded-data-on-closed')
            else:
                pad, payload_len = None, n
            if trigger_cleanup:
                s.c.open_inbound_streams   # public property; moves closed streams out of the table
            o = s.feed(wire.data(st.sid, b'y' * payload_len, pad=pad))
            r.step('data-on-closed', st.sid, st.closed_how, n, 'pad', pad, 'cleaned' if trigger_cleanup else 'held',
                   o.brief(), [f.brief() for f in o.frames])
            if not o.ok:
                if st.closed_how == 'end' and o.is_protocol_error() and o.code == wire.STREAM_CLOSED:
                    r.labels.add('data-after-end-connection-error')
                    break
                r.violate('%s:data-on-closed-stream-broke-connection:%s:%s' % (prop, st.closed_how, o.exc_name),
                          repr(o.exc))
                break
            if any(e[0] == 'DataReceived' for e in o.events):
                r.violate('%s:data-on-closed-stream-delivered' % prop, repr(o.events))
            # the library consumes and acknowledges these bytes itself
            m.conn -= n
            m.conn_recv += n
            m.conn_acked += n
            absorb(o)
            r.labels.add('data-on-closed')
        where = 'step %d %s' % (stepno, op)
        if not check_windows(where):
            break
        if prop == 'C05':
            check_credit(where)
    if prop == 'C05' and not r.violations and not m.conn_manual and not dead:
        # application acknowledges everything outstanding; then nothing may be stuck
        for st in m.streams.values():
            out = st.recv - st.acked
            if out > 0 and st.open:
                o = s.call('acknowledge_received_data', out, st.sid)
                if not o.ok:
                    r.violate('C05:valid-acknowledgement-raised:%s' % o.exc_name, '')
                    break
                st.acked += out
                m.conn_acked += out
                absorb(o)
                r.step('final-ack', st.sid, out, [f.brief() for f in o.frames])
            elif out > 0:
                # stream ended with unacknowledged bytes: the app acknowledges them too
                o = s.call('acknowledge_received_data', out, st.sid)
                if o.ok:
                    st.acked += out
                    m.conn_acked += out
                    absorb(o)
                    r.step('final-ack-closed', st.sid, out, [f.brief() for f in o.frames])
        if check_windows('final'):
            check_credit('final')
        closed = [st for st in m.streams.values() if st.closed_how in ('peer-rst', 'local-rst')]
        if closed and not r.violations and m.conn_max == 65535 and ch.chance(80):
            # flood: a peer that has not yet seen the reset keeps sending DATA on the closed stream.  The
            # library acknowledges those bytes itself, so - every byte being acknowledged - the connection
            # window may never run dry, however the bytes are split between payload and padding.
            st = ch.pick(closed)
            plen = ch.pick([0, 0, 1, 100, 1000])
            pad = ch.pick([255, 255, 100, 0, None])
            fc = plen + (0 if pad is None else pad + 1)
            if fc == 0:
                plen = fc = 300
            if ch.bool():
                s.c.open_inbound_streams
            sent = 0
            frame = wire.data(st.sid, b'z' * plen, pad=pad)
            for _ in range(65535 // fc + 40 if fc >= 128 else 0):
                if m.conn < fc:
                    break
                o = s.feed(frame)
                if not o.ok:
                    r.violate('C05:data-on-closed-stream-broke-connection:%s:%s' % (st.closed_how, o.exc_name),
                              repr(o.exc))
                    break
                m.conn -= fc
                m.conn_recv += fc
                m.conn_acked += fc
                absorb(o)
                sent += 1
            if not r.violations and 0 < m.conn < fc and m.conn <= 256:
                # the window can no longer hold one more such frame: fill it exactly
                o = s.feed(wire.data(st.sid, b'', pad=m.conn - 1))
                if o.ok:
                    m.conn_recv += m.conn
                    m.conn_acked += m.conn
                    m.conn = 0
                    absorb(o)
            r.step('flood-on-closed', st.sid, 'payload', plen, 'pad', pad, 'frames', sent, 'window', m.conn)
            r.labels.add('flood-on-closed')
            if not r.violations and check_windows('flood'):
                check_credit('flood')
    if prop == 'C04' and not r.violations and not dead and ch.chance(48):
        # the application closes the connection and acknowledges what it still held afterwards: nothing is sent
        # any more, so nothing is advertised either - the windows stay what they were
        owed = [st for st in m.streams.values() if st.open and not st.reserved and st.recv > st.acked]
        o = s.call('close_connection')
        if o.ok and owed:
            st = ch.pick(owed)
            before = s.call('remote_flow_control_window', st.sid)
            cbefore = s.c.inbound_flow_control_window
            o = s.call('acknowledge_received_data', st.recv - st.acked, st.sid)
            after = s.call('remote_flow_control_window', st.sid)
            r.step('acknowledge after close_connection', st.sid, st.recv - st.acked, o.brief(),
                   before.value if before.ok else before.brief(), after.value if after.ok else after.brief())
            if o.out:
                r.violate('C04:output-after-close', o.out.hex()[:40])
            elif (before.ok and after.ok and before.value != after.value) or \
                    s.c.inbound_flow_control_window != cbefore:
                r.violate('C04:window-changed-without-window-update:after-close',
                          'stream %r -> %r, connection %r -> %r' % (before.value, after.value, cbefore,
                                                                     s.c.inbound_flow_control_window))
            r.labels.add('acknowledged-after-close')
    if s.out_problems:
        r.violate('%s:malformed-output' % prop, repr(s.out_problems))
    if prop == 'C05':
        r.nontrivial = zero_seen or max_changed_outstanding
        if zero_seen:
            r.labels.add('window-reached-zero')
        if max_changed_outstanding:
            r.labels.add('max-changed-while-outstanding')
    else:
        r.nontrivial = (overflow_attempt or raised_window_call) and later_success or overrun_attempt
        if later_success:
            r.labels.add('raise-then-success')
    return r
