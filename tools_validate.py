"""Validate MANIFEST.json and evidence files against the schemas."""
import glob
import json
import sys
import jsonschema
m = json.load(open('MANIFEST.json'))
jsonschema.validate(m, json.load(open('/root/.vp/MANIFEST.schema.json')))
es = json.load(open('/root/.vp/EVIDENCE.schema.json'))
bad = 0
for f in sorted(glob.glob('evidence/*.json')):
    try:
        jsonschema.validate(json.load(open(f)), es)
    except jsonschema.ValidationError as e:
        print('INVALID', f, e.message)
        bad = 1
print('manifest ok; evidence files:', len(glob.glob('evidence/*.json')))
sys.exit(bad)
