#!/bin/sh
# Offline set-up after a fresh restore: third-party tools from the local wheelhouse only.
DIR="$(cd "$(dirname "$0")" && pwd)"
cd "$DIR" || exit 1
PY=/venv/bin/python
WH=/opt/veriftools/wheels
$PY -c 'import hypothesis' 2>/dev/null || /venv/bin/pip install --no-index --find-links $WH hypothesis || exit 1
if ! PYTHONPATH="$DIR/.deps" $PY -c 'import atheris' 2>/dev/null; then
  /venv/bin/pip install --no-index --find-links $WH --target "$DIR/.deps" atheris >/dev/null 2>&1 || echo "atheris unavailable: coverage-guided tier disabled"
fi
$PY -c 'import h2, hpack, hyperframe, hypothesis; print("deps ok", hypothesis.__version__)' || exit 1
PYTHONPATH="/repo/src:$DIR" $PY -m compileall -q h2verif >/dev/null 2>&1
exit 0
