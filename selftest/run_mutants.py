#!/venv/bin/python
"""Sensitivity self-test (DESIGN.md s7): apply each catalogued mutant to a scratch
copy of /repo/src (outside /repo and /verif, removed afterwards), run the quick
check of the property against the copy via H2VERIF_SRC and require exit 1.

usage: selftest/run_mutants.py [property ids or mutant names...]
"""
import json
import os
import shutil
import subprocess
import sys
import tempfile

ROOT = os.path.dirname(os.path.dirname(os.path.abspath(__file__)))
CAT = json.load(open(os.path.join(ROOT, 'selftest', 'mutants.json')))


def run(m):
    tmp = tempfile.mkdtemp(prefix='h2mut-')
    try:
        src = os.path.join(tmp, 'src')
        shutil.copytree('/repo/src', src, ignore=shutil.ignore_patterns('__pycache__', '*.egg-info'))
        path = os.path.join(src, 'h2', m['file'])
        text = open(path).read()
        if text.count(m['old']) != 1:
            return 'BAD-MUTANT(old text occurs %d times)' % text.count(m['old'])
        open(path, 'w').write(text.replace(m['old'], m['new']))
        out = {}
        for pid in m['props']:
            env = dict(os.environ, H2VERIF_SRC=src)
            p = subprocess.run([os.path.join(ROOT, 'check'), pid, '--no-evidence'] + m.get('args', []),
                               env=env, capture_output=True, text=True)
            keys = [l for l in p.stdout.splitlines() if l.startswith('violation key=')]
            out[pid] = ('CAUGHT' if p.returncode == 1 else 'MISSED(exit %d)' % p.returncode,
                        keys[:2])
        return out
    finally:
        shutil.rmtree(tmp, ignore_errors=True)
        for d in os.listdir(os.path.join(ROOT, 'replays')):
            pass


if __name__ == '__main__':
    want = sys.argv[1:]
    bad = 0
    for m in CAT:
        if want and not (m['name'] in want or set(m['props']) & set(want)):
            continue
        res = run(m)
        print(m['name'], json.dumps(res))
        if 'MISSED' in json.dumps(res) or 'BAD' in json.dumps(res):
            bad = 1
    # replays written during mutant runs describe mutated code: drop untracked ones
    subprocess.run(['git', 'clean', '-fdq', 'replays'], cwd=ROOT)
    sys.exit(bad)
