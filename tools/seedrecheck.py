#!/venv/bin/python
"""Re-run the checks against every kept seeded change (DESIGN.md section 11) without vetting the change again.

usage: tools/seedrecheck.py [<id prefix> ...] [--update]

For every /verif/seeded/<id>/ (or those whose id starts with one of the prefixes): the patch is applied to a scratch
worktree of /repo's HEAD outside /repo and /verif (removed afterwards); if it still applies, the checks recorded in
meta.json as `detected_by` (or, if none, the check of the change's own property) are run against it through
H2VERIF_SRC.  Generators change over time, and with them the cases a fixed seed produces: this is how a detection
that had only been luck shows up.  Prints one line per change; with --update, meta.json gets `rechecked` =
{repo_commit, verif_commit, detected_by}.  Changes that no longer apply to HEAD (they touch lines a later "fix:"
commit changed) keep their record and are reported as such.
"""
import json
import os
import subprocess
import sys
import tempfile

ROOT = os.path.dirname(os.path.dirname(os.path.abspath(__file__)))


def git(*a, cwd=None):
    return subprocess.run(['git'] + list(a), cwd=cwd, capture_output=True, text=True)


def main():
    args = [a for a in sys.argv[1:] if not a.startswith('--')]
    update = '--update' in sys.argv
    ids = sorted(d for d in os.listdir(os.path.join(ROOT, 'seeded'))
                 if os.path.exists(os.path.join(ROOT, 'seeded', d, 'meta.json')))
    if args:
        ids = [i for i in ids if any(i.startswith(a) for a in args)]
    repo_commit = git('rev-parse', '--short', 'HEAD', cwd='/repo').stdout.strip()
    verif_commit = git('rev-parse', '--short', 'HEAD', cwd=ROOT).stdout.strip()
    for sid in ids:
        d = os.path.join(ROOT, 'seeded', sid)
        meta = json.load(open(os.path.join(d, 'meta.json')))
        if meta.get('status') in ('rejected', 'superseded'):
            print(sid, 'skipped (%s)' % meta['status'], flush=True)
            continue
        checks = meta.get('detected_by') or [meta.get('property')]
        tmp = tempfile.mkdtemp(prefix='h2seed-')
        wt = os.path.join(tmp, 'wt')
        try:
            if git('worktree', 'add', '--detach', '-q', wt, 'HEAD', cwd='/repo').returncode != 0:
                print(sid, 'HARNESS: no worktree', flush=True)
                continue
            if git('apply', os.path.join(d, 'patch.diff'), cwd=wt).returncode != 0:
                print(sid, 'does not apply to %s (recorded at %s)' % (repo_commit, meta.get('repo_commit')), flush=True)
                continue
            caught, quiet = [], []
            for c in checks:
                p = subprocess.run([os.path.join(ROOT, 'check'), c, '--no-evidence'], capture_output=True, text=True,
                                   env=dict(os.environ, H2VERIF_SRC=os.path.join(wt, 'src')), timeout=1800)
                (caught if p.returncode == 1 else quiet).append(c if p.returncode in (0, 1) else '%s(rc=%s)' %
                                                                (c, p.returncode))
            print(sid, 'CAUGHT by ' + ','.join(caught) if caught else 'MISSED', ('quiet: ' + ','.join(quiet)) if quiet
                  else '', flush=True)
            if update:
                meta['rechecked'] = {'repo_commit': repo_commit, 'verif_commit': verif_commit, 'detected_by': caught,
                                     'quiet': quiet}
                json.dump(meta, open(os.path.join(d, 'meta.json'), 'w'), indent=1)
        finally:
            git('worktree', 'remove', '--force', wt, cwd='/repo')
            subprocess.run(['rm', '-rf', tmp])
            subprocess.run(['git', 'clean', '-fdq', 'replays'], cwd=ROOT)


if __name__ == '__main__':
    main()
