#!/venv/bin/python
"""Vet and evaluate a seeded change (DESIGN.md section 11).

usage: tools/seedeval.py <dir with patch.diff, demo.py, meta.json> [--checks C01,C07|all] [--tier quick]
                         [--import <seeded id>]

Steps, all in a scratch copy of /repo's HEAD outside /repo and /verif (removed
afterwards):
  1. the patch applies to a clean checkout;
  2. the demonstration passes on the clean tree;
  3. the repository's tests (1403 stable-pass baseline) still pass with the patch;
  4. the demonstration fails with the patch;
  5. the named checks (default: the property in meta.json) are run against the
     patched copy through H2VERIF_SRC; exit 1 = CAUGHT.
With --import the vetted change is copied to /verif/seeded/<id>/ and meta.json
is completed with what was run.  Prints one JSON line.
"""
import json
import os
import shutil
import subprocess
import sys
import tempfile
import xml.etree.ElementTree as ET

ROOT = os.path.dirname(os.path.dirname(os.path.abspath(__file__)))
PY = '/venv/bin/python'


def baseline(wt):
    base = json.load(open('/root/.vp/BASELINE.json'))
    want = set(base['stable_pass'])
    fd, path = tempfile.mkstemp(suffix='.xml')
    os.close(fd)
    env = dict(os.environ, PYTHONPATH=os.path.join(wt, 'src'), PYTHONDONTWRITEBYTECODE='1')
    try:
        subprocess.run([PY, '-m', 'pytest', '-q', '-p', 'no:cacheprovider', '--timeout=900', '-n', '4',
                        '--continue-on-collection-errors', '--junitxml=' + path],
                       cwd=wt, env=env, stdout=subprocess.DEVNULL, stderr=subprocess.DEVNULL)
        passed = set()
        for tc in ET.parse(path).getroot().iter('testcase'):
            if not any(c.tag in ('failure', 'error', 'skipped') for c in tc):
                passed.add('%s::%s' % (tc.get('classname'), tc.get('name')))
    finally:
        os.unlink(path)
    return sorted(want - passed)


def demo(wt, path):
    env = dict(os.environ, PYTHONPATH=os.path.join(wt, 'src'), PYTHONDONTWRITEBYTECODE='1', PYTHONHASHSEED='0')
    p = subprocess.run([PY, path], env=env, capture_output=True, text=True, timeout=600, cwd=os.path.dirname(path))
    return p.returncode, (p.stdout + p.stderr)[-400:]


def main():
    args = sys.argv[1:]
    d = os.path.abspath(args[0])
    checks = None
    tier = 'quick'
    imp = None
    seeds = ['1']
    i = 1
    while i < len(args):
        if args[i] == '--checks':
            checks = args[i + 1]; i += 2
        elif args[i] == '--tier':
            tier = args[i + 1]; i += 2
        elif args[i] == '--import':
            imp = args[i + 1]; i += 2
        elif args[i] == '--seeds':
            seeds = args[i + 1].split(','); i += 2
        else:
            raise SystemExit('bad arg ' + args[i])
    meta = json.load(open(os.path.join(d, 'meta.json')))
    prop = meta['property']
    if checks is None:
        checks = [prop]
    elif checks == 'all':
        checks = [c['property_id'] for c in json.load(open(os.path.join(ROOT, 'MANIFEST.json')))['checks']]
    else:
        checks = checks.split(',')
    out = {'dir': d, 'property': prop}
    tmp = tempfile.mkdtemp(prefix='h2seed-')
    wt = os.path.join(tmp, 'wt')
    try:
        subprocess.run(['git', '-C', '/repo', 'worktree', 'add', '--detach', '-q', wt, 'HEAD'], check=True)
        out['repo_commit'] = subprocess.run(['git', '-C', '/repo', 'rev-parse', '--short', 'HEAD'],
                                            capture_output=True, text=True).stdout.strip()
        rc, txt = demo(wt, os.path.join(d, 'demo.py'))
        out['demo_clean'] = rc
        if rc != 0:
            out['verdict'] = 'REJECT demo fails on clean tree: ' + txt
            return out
        p = subprocess.run(['git', '-C', wt, 'apply', os.path.join(d, 'patch.diff')], capture_output=True, text=True)
        if p.returncode != 0:
            out['verdict'] = 'REJECT patch does not apply: ' + p.stderr[-300:]
            return out
        touched = subprocess.run(['git', '-C', wt, 'diff', '--name-only'], capture_output=True, text=True).stdout.split()
        out['touched'] = touched
        if any(not t.startswith('src/h2/') for t in touched):
            out['verdict'] = 'REJECT patch touches files outside src/h2'
            return out
        missing = baseline(wt)
        out['test_regressions'] = len(missing)
        if missing:
            out['verdict'] = 'REJECT repository tests fail: ' + ', '.join(missing[:3])
            return out
        rc, txt = demo(wt, os.path.join(d, 'demo.py'))
        out['demo_patched'] = rc
        out['demo_output'] = txt.strip()[-300:]
        if rc == 0:
            out['verdict'] = 'REJECT demo passes with the patch'
            return out
        res = {}
        for c in checks:
            for s in seeds:
                env = dict(os.environ, H2VERIF_SRC=os.path.join(wt, 'src'), VERIF_SEED=s)
                p = subprocess.run([os.path.join(ROOT, 'check'), c, '--tier', tier, '--no-evidence'],
                                   env=env, capture_output=True, text=True)
                keys = [l[len('violation key='):].strip() for l in p.stdout.splitlines() if l.startswith('violation key=')]
                r = 'CAUGHT' if p.returncode == 1 else ('quiet' if p.returncode == 0 else 'HARNESS-ERROR(%d)' % p.returncode)
                res['%s@%s' % (c, s) if len(seeds) > 1 else c] = [r] + keys[:2]
                if p.returncode not in (0, 1):
                    res[c].append((p.stdout + p.stderr)[-300:])
        out['checks'] = res
        out['verdict'] = 'CAUGHT' if any(v[0] == 'CAUGHT' for v in res.values()) else 'MISSED'
        if imp:
            dst = os.path.join(ROOT, 'seeded', imp)
            os.makedirs(dst, exist_ok=True)
            for f in ('patch.diff', 'demo.py'):
                shutil.copy(os.path.join(d, f), os.path.join(dst, f))
            meta.update({
                'id': imp,
                'repo_commit': out['repo_commit'],
                'ran': ['git apply patch.diff in a scratch worktree of /repo HEAD',
                        'demo.py on clean tree: exit 0', 'repository tests with patch: 1403/1403 baseline tests pass',
                        'demo.py with patch: exit %d' % out['demo_patched'],
                        './check <id> --tier %s with H2VERIF_SRC=<patched src>' % tier],
                'detected_by': sorted(k for k, v in res.items() if v[0] == 'CAUGHT'),
                'quiet_checks': sorted(k for k, v in res.items() if v[0] == 'quiet'),
                'violation_keys': {k: v[1:] for k, v in res.items() if v[0] == 'CAUGHT'},
            })
            json.dump(meta, open(os.path.join(dst, 'meta.json'), 'w'), indent=1, sort_keys=True)
        return out
    finally:
        subprocess.run(['git', '-C', '/repo', 'worktree', 'remove', '--force', wt], capture_output=True)
        shutil.rmtree(tmp, ignore_errors=True)
        subprocess.run(['git', 'clean', '-fdq', 'replays'], cwd=ROOT)


if __name__ == '__main__':
    print(json.dumps(main()))
