#!/venv/bin/python
"""Mechanical mutation sweep (a sensitivity measurement of the whole check suite, DESIGN.md section 12).

  tools/mutate.py list                      -> number of mutants per file
  tools/mutate.py survivors <out.json> [N]  -> apply up to N mutants (fixed pseudo-random order), keep those that
                                               the repository's 1403 baseline tests do not notice
  tools/mutate.py judge <survivors.json> <out.json> [--cases-div K] [--first]
                                            -> run every quick check (case counts divided by K) against each
                                               surviving mutant; record which checks exit 1 (--first: stop at the
                                               first check that does, broad checks first)

  tools/mutate.py report <sweep.json> <survivors.json> <out.md>
                                            -> summary table

Everything happens in scratch copies of /repo/src under a temp dir outside /repo and /verif, removed afterwards.
Mutation operators: comparison flips (< <=, > >=, == !=, is / is not, in / not in), and / or, removal of `not`,
negated `if` tests, small integer constants +1, True / False, + / -, and deletion of simple statements
(assignments, augmented assignments, expression statements, raise).
"""
import ast
import json
import os
import random
import shutil
import subprocess
import sys
import tempfile
import xml.etree.ElementTree as ET
from concurrent.futures import ThreadPoolExecutor

ROOT = os.path.dirname(os.path.dirname(os.path.abspath(__file__)))
SRC = '/repo/src/h2'
FILES = ['connection.py', 'stream.py', 'frame_buffer.py', 'settings.py', 'windows.py', 'utilities.py',
         'exceptions.py', 'events.py', 'config.py']
PY = '/venv/bin/python'

FLIP = {ast.Lt: '<=', ast.LtE: '<', ast.Gt: '>=', ast.GtE: '>', ast.Eq: '!=', ast.NotEq: '==',
        ast.Is: 'is not', ast.IsNot: 'is', ast.In: 'not in', ast.NotIn: 'in'}
OPTXT = {ast.Lt: '<', ast.LtE: '<=', ast.Gt: '>', ast.GtE: '>=', ast.Eq: '==', ast.NotEq: '!=',
         ast.Is: 'is', ast.IsNot: 'is not', ast.In: 'in', ast.NotIn: 'not in'}


def offsets(text):
    out = [0]
    for line in text.splitlines(True):
        out.append(out[-1] + len(line))
    return out


def span(node, offs):
    return (offs[node.lineno - 1] + node.col_offset, offs[node.end_lineno - 1] + node.end_col_offset)


def mutants_of(fname):
    text = open(os.path.join(SRC, fname)).read()
    # ast column offsets are in UTF-8 bytes; the sources are ASCII
    tree = ast.parse(text)
    offs = offsets(text)
    out = []

    def add(a, b, new, what, node):
        if text[a:b] != new:
            out.append({'file': fname, 'start': a, 'end': b, 'new': new, 'what': what, 'line': node.lineno,
                        'old': text[a:b][:60]})

    skip_funcs = ('__repr__', '__str__')
    parents = {}
    for n in ast.walk(tree):
        for c in ast.iter_child_nodes(n):
            parents[c] = n

    def in_skipped(n):
        while n in parents:
            n = parents[n]
            if isinstance(n, ast.FunctionDef) and n.name in skip_funcs:
                return True
        return False

    for n in ast.walk(tree):
        if in_skipped(n):
            continue
        if isinstance(n, ast.Compare) and len(n.ops) == 1:
            op = n.ops[0]
            if type(op) in FLIP:
                a = span(n.left, offs)[1]
                b = span(n.comparators[0], offs)[0]
                mid = text[a:b]
                if OPTXT[type(op)] in mid:
                    add(a, b, mid.replace(OPTXT[type(op)], FLIP[type(op)], 1), 'cmp', n)
        elif isinstance(n, ast.BoolOp):
            for left, right in zip(n.values, n.values[1:]):
                a, b = span(left, offs)[1], span(right, offs)[0]
                mid = text[a:b]
                word = 'and' if isinstance(n.op, ast.And) else 'or'
                if word in mid:
                    add(a, b, mid.replace(word, 'or' if word == 'and' else 'and', 1), 'boolop', n)
        elif isinstance(n, ast.UnaryOp) and isinstance(n.op, ast.Not):
            a, b = span(n, offs)
            oa, ob = span(n.operand, offs)
            add(a, b, text[oa:ob], 'not-removed', n)
        elif isinstance(n, (ast.If, ast.While)) or isinstance(n, ast.IfExp):
            a, b = span(n.test, offs)
            add(a, b, 'not (%s)' % text[a:b], 'negated-test', n)
        elif isinstance(n, ast.Constant) and not isinstance(parents.get(n), ast.Expr):
            a, b = span(n, offs)
            if n.value is True or n.value is False:
                add(a, b, 'False' if n.value else 'True', 'bool', n)
            elif isinstance(n.value, int) and not isinstance(n.value, bool) and 0 <= n.value <= 255:
                add(a, b, str(n.value + 1), 'const+1', n)
        elif isinstance(n, ast.BinOp) and isinstance(n.op, (ast.Add, ast.Sub)):
            a, b = span(n.left, offs)[1], span(n.right, offs)[0]
            mid = text[a:b]
            ch = '+' if isinstance(n.op, ast.Add) else '-'
            if mid.count(ch) == 1:
                add(a, b, mid.replace(ch, '-' if ch == '+' else '+'), 'arith', n)
        elif isinstance(n, (ast.Assign, ast.AugAssign, ast.Raise)) or \
                (isinstance(n, ast.Expr) and isinstance(n.value, ast.Call)):
            if isinstance(n, ast.Expr):
                f = n.value.func
                name = ast.unparse(f)
                if 'logger' in name or name in ('super',):
                    continue
            a, b = span(n, offs)
            add(a, b, 'pass', 'deleted:' + type(n).__name__, n)
    return out


def all_mutants():
    out = []
    for f in FILES:
        out += mutants_of(f)
    return out


def make_copy(m, tmp):
    src = os.path.join(tmp, 'src')
    shutil.copytree('/repo/src', src, ignore=shutil.ignore_patterns('__pycache__', '*.egg-info'))
    path = os.path.join(src, 'h2', m['file'])
    text = open(path).read()
    open(path, 'w').write(text[:m['start']] + m['new'] + text[m['end']:])
    try:
        compile(open(path).read(), path, 'exec')
    except SyntaxError:
        return None
    return src


def survives(m):
    base = json.load(open('/root/.vp/BASELINE.json'))
    want = set(base['stable_pass'])
    tmp = tempfile.mkdtemp(prefix='h2mut-')
    try:
        src = make_copy(m, tmp)
        if src is None:
            return False
        xml = os.path.join(tmp, 'junit.xml')
        env = dict(os.environ, PYTHONPATH=src, PYTHONDONTWRITEBYTECODE='1')
        try:
            subprocess.run([PY, '-m', 'pytest', '-q', '-p', 'no:cacheprovider', '--timeout=120', '-n', '4',
                            '--continue-on-collection-errors', '--junitxml=' + xml],
                           cwd='/repo', env=env, stdout=subprocess.DEVNULL, stderr=subprocess.DEVNULL, timeout=900)
        except subprocess.TimeoutExpired:
            return False
        if not os.path.exists(xml):
            return False
        passed = set()
        for tc in ET.parse(xml).getroot().iter('testcase'):
            if not any(c.tag in ('failure', 'error', 'skipped') for c in tc):
                passed.add('%s::%s' % (tc.get('classname'), tc.get('name')))
        return not (want - passed)
    finally:
        shutil.rmtree(tmp, ignore_errors=True)


BROAD_FIRST = ['C01', 'C07', 'C09', 'C18', 'C17', 'C02', 'C03', 'C04', 'C05', 'C25', 'C13', 'C08', 'C10', 'C11', 'C12']


def judge(m, div, first=False):
    checks = [c['property_id'] for c in json.load(open(os.path.join(ROOT, 'MANIFEST.json')))['checks']]
    checks = [c for c in BROAD_FIRST if c in checks] + [c for c in checks if c not in BROAD_FIRST]
    tiers = {}
    tmp = tempfile.mkdtemp(prefix='h2mut-')
    res = {}
    try:
        src = make_copy(m, tmp)
        for c in checks:
            sys.path.insert(0, ROOT)
            env = dict(os.environ, H2VERIF_SRC=src)
            cases = CASES.get(c)
            cmd = [os.path.join(ROOT, 'check'), c, '--no-evidence']
            if cases:
                cmd += ['--cases', str(max(16, cases // div))]
            try:
                p = subprocess.run(cmd, env=env, capture_output=True, text=True, timeout=900)
                rc = p.returncode
            except subprocess.TimeoutExpired:
                rc = 'timeout'
            if rc == 1:
                keys = [l[len('violation key='):].strip()[:120] for l in p.stdout.splitlines()
                        if l.startswith('violation key=')]
                res[c] = keys[:1] or ['(violation)']
                if first:
                    break
            elif rc not in (0, 1):
                res[c] = ['HARNESS-ERROR %r' % rc]
        return res
    finally:
        shutil.rmtree(tmp, ignore_errors=True)
        subprocess.run(['git', 'clean', '-fdq', 'replays'], cwd=ROOT)


CASES = {}


def load_cases():
    import importlib
    sys.path[:0] = ['/repo/src', ROOT]
    for c in [x['property_id'] for x in json.load(open(os.path.join(ROOT, 'MANIFEST.json')))['checks']]:
        mod = importlib.import_module('h2verif.props.' + c)
        CASES[c] = mod.TIERS['quick'].get('cases')


def main():
    cmd = sys.argv[1]
    if cmd == 'list':
        ms = all_mutants()
        import collections
        print(collections.Counter(m['file'] for m in ms), len(ms))
        print(collections.Counter(m['what'] for m in ms))
    elif cmd == 'survivors':
        out = sys.argv[2]
        n = int(sys.argv[3]) if len(sys.argv) > 3 else 10**9
        ms = all_mutants()
        random.Random(20260922).shuffle(ms)
        ms = ms[:n]
        done = []
        with ThreadPoolExecutor(4) as ex:
            for m, alive in zip(ms, ex.map(survives, ms)):
                m['survives_repo_tests'] = alive
                done.append(m)
                if len(done) % 20 == 0:
                    json.dump(done, open(out, 'w'), indent=0)
                    print(len(done), sum(1 for x in done if x['survives_repo_tests']), flush=True)
        json.dump(done, open(out, 'w'), indent=0)
        print('tried', len(done), 'survive', sum(1 for x in done if x['survives_repo_tests']))
    elif cmd == 'judge':
        load_cases()
        ms = [m for m in json.load(open(sys.argv[2])) if m.get('survives_repo_tests')]
        # /repo may have moved on since the survivors were collected (a "fix:" commit shifts offsets): find each
        # mutant again in the current sources by file, operator and text, nearest line first
        current = all_mutants()
        moved = []
        for m in ms:
            same = [c for c in current if (c['file'], c['what'], c['old'], c['new']) ==
                    (m['file'], m['what'], m['old'], m['new'])]
            if not same:
                print('gone from the current tree:', m['file'], m['line'], m['what'], flush=True)
                continue
            c = dict(min(same, key=lambda c: abs(c['line'] - m['line'])))
            c['survives_repo_tests'] = True
            c['line_when_collected'] = m['line']
            moved.append(c)
        ms = moved
        out = sys.argv[3]
        div = 4
        if '--cases-div' in sys.argv:
            div = int(sys.argv[sys.argv.index('--cases-div') + 1])
        done = []
        if os.path.exists(out):
            done = json.load(open(out))
        seen = {(m['file'], m['what'], m['old'], m['new'], m.get('line_when_collected')) for m in done}
        for m in ms:
            if (m['file'], m['what'], m['old'], m['new'], m.get('line_when_collected')) in seen:
                continue
            m['caught_by'] = judge(m, div, first='--first' in sys.argv)
            done.append(m)
            json.dump(done, open(out, 'w'), indent=0)
            print(m['file'], m['line'], m['what'], repr(m['old'][:40]), '->', repr(m['new'][:40]),
                  'CAUGHT by ' + ','.join(sorted(m['caught_by'])) if m['caught_by'] else 'MISSED', flush=True)


def report(sweep, survivors, out):
    done = json.load(open(sweep))
    surv = json.load(open(survivors))
    tried = len(surv)
    alive = sum(1 for m in surv if m.get('survives_repo_tests'))
    caught = [m for m in done if m['caught_by']]
    missed = [m for m in done if not m['caught_by']]
    import collections
    by_check = collections.Counter(c for m in caught for c in m['caught_by'])
    lines = ['# Mechanical mutation sweep (tools/mutate.py; DESIGN.md section 12)', '',
             '%d of the %d mutants of src/h2 were applied (fixed pseudo-random order); %d of them survive the '
             "repository's 1403 baseline tests.  %d survivors were judged against the quick checks (case counts "
             'divided as stated in DESIGN.md, first catching check only): %d caught, %d not.' %
             (tried, len(all_mutants()), alive, len(done), len(caught), len(missed)), '',
             'First catching check: ' + ', '.join('%s %d' % kv for kv in sorted(by_check.items())), '',
             '## Survivors of both (each classified by hand in DESIGN.md section 12)', '',
             '| file | line | operator | from | to |', '|---|---|---|---|---|']
    for m in missed:
        lines.append('| %s | %d | %s | `%s` | `%s` |' % (m['file'], m['line'], m['what'],
                                                     m['old'][:60].replace('\n', ' ').replace('|', '/'),
                                                     m['new'][:40].replace('\n', ' ').replace('|', '/')))
    lines += ['', '## Caught', '', '| file | line | operator | from | to | first catching check: key |',
              '|---|---|---|---|---|---|']
    for m in caught:
        c, keys = sorted(m['caught_by'].items())[0]
        lines.append('| %s | %d | %s | `%s` | `%s` | %s: %s |' % (
            m['file'], m['line'], m['what'], m['old'][:50].replace('\n', ' ').replace('|', '/'),
            m['new'][:30].replace('\n', ' ').replace('|', '/'), c, keys[0][:90].replace('|', '/')))
    open(out, 'w').write('\n'.join(lines) + '\n')
    print('tried %d alive %d judged %d caught %d missed %d' % (tried, alive, len(done), len(caught), len(missed)))


if __name__ == '__main__':
    if len(sys.argv) > 1 and sys.argv[1] == 'report':
        report(sys.argv[2], sys.argv[3], sys.argv[4])
    else:
        main()
