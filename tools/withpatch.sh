#!/bin/sh
# usage: tools/withpatch.sh <patch.diff> <command...>
# Runs <command> with H2VERIF_SRC pointing at a scratch worktree of /repo HEAD with the patch applied
# (outside /repo and /verif; removed afterwards).  No repository tests are run: use seedeval.py for vetting.
P="$(readlink -f "$1")"; shift
T="$(mktemp -d /tmp/h2wp-XXXXXX)"
git -C /repo worktree add --detach -q "$T/wt" HEAD || exit 2
git -C "$T/wt" apply "$P" || { git -C /repo worktree remove --force "$T/wt"; rm -rf "$T"; exit 2; }
H2VERIF_SRC="$T/wt/src" "$@"
rc=$?
git -C /repo worktree remove --force "$T/wt"; rm -rf "$T"
exit $rc
