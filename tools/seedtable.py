#!/usr/bin/env python3
"""Regenerate /verif/seeded/INDEX.md from the meta.json files of the seeded changes."""
import glob
import json
import os

ROOT = os.path.dirname(os.path.dirname(os.path.abspath(__file__)))
rows = []
for path in sorted(glob.glob(os.path.join(ROOT, 'seeded', '*', 'meta.json'))):
    m = json.load(open(path))
    rows.append(m)

out = ['# Seeded changes (made by independent sub-agents from the property text only)', '',
       'Each directory holds `patch.diff` (applies to /repo at `repo_commit`), `demo.py` (exit 0 on the clean tree, '
       'exit 1 with the patch) and `meta.json`.  "detected by" lists the quick-tier checks that exit 1 on the patched '
       'tree (run through `tools/seedeval.py`, i.e. `H2VERIF_SRC=<patched worktree>/src ./check <id>`).', '',
       '| id | property | change | needs | detected by | status |', '|---|---|---|---|---|---|']
n_caught = 0
for m in rows:
    det = ', '.join(m.get('detected_by', [])) or '-'
    status = m.get('status') or ('caught' if m.get('detected_by') else 'MISSED')
    if m.get('detected_by'):
        n_caught += 1
    out.append('| %s | %s | %s | %s | %s | %s |' % (
        m.get('id'), m.get('property'), (m.get('summary') or '').replace('|', '/').replace('\n', ' '),
        (m.get('needs') or '').replace('|', '/').replace('\n', ' ')[:300], det, status))
out += ['', '%d changes, %d detected by at least one quick check.' % (len(rows), n_caught), '']
open(os.path.join(ROOT, 'seeded', 'INDEX.md'), 'w').write('\n'.join(out))
print('%d changes, %d detected' % (len(rows), n_caught))
