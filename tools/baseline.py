#!/venv/bin/python
"""Run the repository's test suite (guard off: there are no hooks) and compare
with the stable baseline in /root/.vp/BASELINE.json.  Exit 0 iff every test
that is stable-pass in the baseline passes."""
import json
import os
import subprocess
import sys
import tempfile
import xml.etree.ElementTree as ET

base = json.load(open('/root/.vp/BASELINE.json'))
want = set(base['stable_pass'])
fd, path = tempfile.mkstemp(suffix='.xml')
os.close(fd)
try:
    subprocess.run(['/venv/bin/python', '-m', 'pytest', '-q', '-p', 'no:cacheprovider', '--timeout=900',
                    '-n', '8', '--continue-on-collection-errors', '--junitxml=' + path],
                   cwd='/repo', stdout=subprocess.DEVNULL, stderr=subprocess.DEVNULL)
    passed = set()
    for tc in ET.parse(path).getroot().iter('testcase'):
        if not any(c.tag in ('failure', 'error', 'skipped') for c in tc):
            passed.add('%s::%s' % (tc.get('classname'), tc.get('name')))
finally:
    os.unlink(path)
missing = sorted(want - passed)
print('baseline stable_pass: %d, passing now: %d, regressions: %d' % (len(want), len(want & passed), len(missing)))
for m in missing[:40]:
    print('  REGRESSED', m)
sys.exit(1 if missing else 0)
